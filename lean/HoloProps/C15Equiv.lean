/-
C15 (part 2) — when the round trip is the identity up to the property's equivalence, identical
re-saved text, and the tie to the regenerated constructor-signature table.
-/
import HoloProps.C15

open Holo HoloGen
namespace C15

mutual
/-- the property's equivalence: tuples and arrays ≡ lists, numpy scalars ≡ Python scalars -/
def equivNorm : YVal → YVal
  | .npfloat k => .pyfloat k
  | .npint k => .pyint k
  | .npcomplex k => .pycomplex k
  | .list vs => .list (equivNormList vs)
  | .tuple vs => .list (equivNormList vs)
  | .arr vs => .list (equivNormList vs)
  | .obj c fields => .obj c (equivNormFields fields)
  | v => v
def equivNormList : List YVal → List YVal
  | [] => []
  | v :: vs => equivNorm v :: equivNormList vs
def equivNormFields : List (String × YVal) → List (String × YVal)
  | [] => []
  | (k, v) :: kvs => (k, equivNorm v) :: equivNormFields kvs
end

mutual
/-- every constructor argument that is None has default None (recursively) -/
def noneSafe (tbl : CtorTable) : YVal → Prop
  | .list vs => noneSafeList tbl vs
  | .tuple vs => noneSafeList tbl vs
  | .arr vs => noneSafeList tbl vs
  | .obj c fields => noneSafeFields tbl (sigOf tbl c) fields
  | _ => True
def noneSafeList (tbl : CtorTable) : List YVal → Prop
  | [] => True
  | v :: vs => noneSafe tbl v ∧ noneSafeList tbl vs
def noneSafeFields (tbl : CtorTable) : List (String × Bool × Bool) → List (String × YVal) → Prop
  | a :: sig, (_, v) :: kvs => (v.isNone = true → a.2.2 = true) ∧ noneSafe tbl v ∧ noneSafeFields tbl sig kvs
  | [], [] => True
  | _, _ => False
end

mutual
theorem ynorm_eq_equiv (tbl : CtorTable) (o : YVal) (h : noneSafe tbl o) : ynorm tbl o = equivNorm o := by
  cases o with
  | list vs => simp only [ynorm, equivNorm]; rw [ynormList_eq tbl vs (by simpa [noneSafe] using h)]
  | tuple vs => simp only [ynorm, equivNorm]; rw [ynormList_eq tbl vs (by simpa [noneSafe] using h)]
  | arr vs => simp only [ynorm, equivNorm]; rw [ynormList_eq tbl vs (by simpa [noneSafe] using h)]
  | obj c fields =>
    simp only [ynorm, equivNorm]
    have := ynormFields_eq tbl c (sigOf tbl c) fields (by simpa [noneSafe] using h)
    simp only [sigOf] at this
    rw [this]
  | _ => simp [ynorm, equivNorm]
theorem ynormList_eq (tbl : CtorTable) (vs : List YVal) (h : noneSafeList tbl vs) : ynormList tbl vs = equivNormList vs := by
  cases vs with
  | nil => simp [ynormList, equivNormList]
  | cons v vs =>
    simp only [noneSafeList] at h
    simp only [ynormList, equivNormList]
    rw [ynorm_eq_equiv tbl v h.1, ynormList_eq tbl vs h.2]
theorem ynormFields_eq (tbl : CtorTable) (c : String) (sig : List (String × Bool × Bool)) (kvs : List (String × YVal))
    (h : noneSafeFields tbl sig kvs) : ynormFields tbl c sig kvs = equivNormFields kvs := by
  cases sig with
  | nil => cases kvs with
    | nil => simp [ynormFields, equivNormFields]
    | cons x xs => simp [noneSafeFields] at h
  | cons a sig => cases kvs with
    | nil => simp [noneSafeFields] at h
    | cons x xs =>
      obtain ⟨k, v⟩ := x
      simp only [noneSafeFields] at h
      obtain ⟨h1, h2, h3⟩ := h
      simp only [ynormFields, equivNormFields]
      rw [ynormFields_eq tbl c sig xs h3, ynorm_eq_equiv tbl v h2]
      by_cases hn : v.isNone = true
      · have hv : v = .none := by cases v <;> simp [YVal.isNone] at hn <;> rfl
        subst hv
        simp [h1 hn, YVal.isNone, equivNorm]
      · simp [hn]
end

/-- for objects whose None-valued arguments all have default None, save → load is the identity up
to the property's equivalence (container and numpy-scalar types) -/
theorem C15_roundtrip_equiv (tbl : CtorTable) (o : YVal) (hwf : wf tbl o) (hs : noneSafe tbl o) :
    construct tbl (represent o) = equivNorm o := by
  rw [C15_roundtrip tbl o hwf, ynorm_eq_equiv tbl o hs]

/-- an explicit `None` for an argument whose default is not None does NOT survive: it reloads as
the default (`_iteritems` skips None-valued arguments) -/
theorem C15_none_dropped_counterexample :
    let tbl : CtorTable := [("K", [("x", true, false)])]
    construct tbl (represent (.obj "K" [("x", .none)])) = .obj "K" [("x", .dflt "K" "x")] := by
  simp [represent, representFields, construct, constructFields, fillDefaults, YVal.isNone, List.lookup]

mutual
def noNpComplex : YVal → Prop
  | .npcomplex _ => False
  | .list vs => noNpComplexList vs
  | .tuple vs => noNpComplexList vs
  | .arr vs => noNpComplexList vs
  | .obj _ fields => noNpComplexFields fields
  | _ => True
def noNpComplexList : List YVal → Prop
  | [] => True
  | v :: vs => noNpComplex v ∧ noNpComplexList vs
def noNpComplexFields : List (String × YVal) → Prop
  | [] => True
  | (_, v) :: kvs => noNpComplex v ∧ noNpComplexFields kvs
end

theorem equiv_isNone (v : YVal) : (equivNorm v).isNone = v.isNone := by
  cases v <;> simp [equivNorm, YVal.isNone]

mutual
theorem represent_equiv (o : YVal) (h : noNpComplex o) : represent (equivNorm o) = represent o := by
  cases o with
  | list vs => simp only [equivNorm, represent]; rw [representList_equiv vs (by simpa [noNpComplex] using h)]
  | tuple vs => simp only [equivNorm, represent]; rw [representList_equiv vs (by simpa [noNpComplex] using h)]
  | arr vs => simp only [equivNorm, represent]; rw [representList_equiv vs (by simpa [noNpComplex] using h)]
  | obj c fields => simp only [equivNorm, represent]; rw [representFields_equiv fields (by simpa [noNpComplex] using h)]
  | npcomplex k => simp [noNpComplex] at h
  | _ => simp [equivNorm, represent]
theorem representList_equiv (vs : List YVal) (h : noNpComplexList vs) : representList (equivNormList vs) = representList vs := by
  cases vs with
  | nil => simp [equivNormList, representList]
  | cons v vs =>
    simp only [noNpComplexList] at h
    simp only [equivNormList, representList]
    rw [represent_equiv v h.1, representList_equiv vs h.2]
theorem representFields_equiv (kvs : List (String × YVal)) (h : noNpComplexFields kvs) :
    representFields (equivNormFields kvs) = representFields kvs := by
  cases kvs with
  | nil => simp [equivNormFields, representFields]
  | cons x xs =>
    obtain ⟨k, v⟩ := x
    simp only [noNpComplexFields] at h
    simp only [equivNormFields, representFields, equiv_isNone]
    rw [represent_equiv v h.1, representFields_equiv xs h.2]
end

/-- saving the reloaded object reproduces the identical text (node), for objects without
`np.complex128` arguments and with safe `None`s -/
theorem C15_identical_text (tbl : CtorTable) (o : YVal) (hwf : wf tbl o) (hs : noneSafe tbl o) (hc : noNpComplex o) :
    represent (construct tbl (represent o)) = represent o := by
  rw [C15_roundtrip_equiv tbl o hwf hs, represent_equiv o hc]

/-- `np.complex128` is written with holopy's `!complex` tag but reloads as a Python complex, which
PyYAML writes with its own tag: the re-saved text differs -/
theorem C15_npcomplex_retag_counterexample (tbl : CtorTable) (k : Int) :
    represent (construct tbl (represent (.npcomplex k))) ≠ represent (.npcomplex k) := by
  simp [represent, construct]

/-! ### tie to the source: the regenerated constructor-signature table -/

def isNoneDefault (tbl : CtorTable) (c a : String) : Bool :=
  match (sigOf tbl c).find? (·.1 == a) with
  | some x => x.2.2
  | none => false

/-- arguments that users (and holopy itself) routinely leave as `None` and that must therefore keep
`None` as their default for save → load to preserve them -/
def mustBeNoneSafe : List (String × String) := [
  ("Sphere", "n"), ("Sphere", "center"), ("LayeredSphere", "n"), ("LayeredSphere", "t"), ("LayeredSphere", "center"),
  ("Ellipsoid", "n"), ("Ellipsoid", "r"), ("Ellipsoid", "center"), ("Spheroid", "n"), ("Spheroid", "r"), ("Spheroid", "center"),
  ("Cylinder", "n"), ("Cylinder", "h"), ("Cylinder", "d"), ("Cylinder", "center"),
  ("Uniform", "guess"), ("Uniform", "name"), ("Gaussian", "name"), ("BoundedGaussian", "name"), ("ComplexPrior", "name"),
  ("TransformedPrior", "name"),
  ("AlphaModel", "noise_sd"), ("AlphaModel", "medium_index"), ("AlphaModel", "illum_wavelen"), ("AlphaModel", "illum_polarization"),
  ("ExactModel", "noise_sd"), ("ExactModel", "medium_index"), ("ExactModel", "illum_wavelen"), ("ExactModel", "illum_polarization"),
  ("NmpfitStrategy", "npixels"), ("LeastSquaresScipyStrategy", "npixels"), ("LeastSquaresScipyStrategy", "max_nfev"),
  ("EmceeStrategy", "nsamples"), ("EmceeStrategy", "npixels"), ("EmceeStrategy", "seed"), ("EmceeStrategy", "walker_initial_pos")]

/-- … and they do, in the current source (checked against the regenerated table) -/
theorem C15_none_defaults_in_source : ∀ p ∈ mustBeNoneSafe, isNoneDefault ctorTable p.1 p.2 = true := by
  decide +kernel

/-- argument names of every class are distinct (the `wf` hypothesis holds for real classes) -/
theorem C15_signatures_wellformed : ∀ e ∈ ctorTable, (e.2.map (·.1)).Nodup := by
  decide +kernel

end C15
