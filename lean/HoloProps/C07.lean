/-
C07 — the value at a detector location depends only on the location: grids,
explicit point lists, crops and random pixel subsets agree.
Model: HoloModel/ImageFormation.lean.
-/
import Mathlib.Tactic.Ring
import HoloProps.CxLemmas
import HoloModel.ImageFormation

open Holo
set_option linter.unusedSimpArgs false
namespace C07

theorem rows_length {β : Type} (g : Nat → Nat → β) (ny : Nat) (m : Nat) :
    ((List.range m).flatMap fun i => (List.range ny).map (g i)).length = m * ny := by
  induction m with
  | zero => simp
  | succ m ihm => simp [List.range_succ, List.flatMap_append, ihm]; ring

theorem rows_get {β : Type} (g : Nat → Nat → β) (nx ny i j : Nat) (hi : i < nx) (hj : j < ny) :
    ((List.range nx).flatMap fun i => (List.range ny).map (g i))[i * ny + j]? = some (g i j) := by
  induction nx with
  | zero => omega
  | succ n ih =>
    simp only [List.range_succ, List.flatMap_append, List.flatMap_cons, List.flatMap_nil, List.append_nil]
    by_cases hin : i < n
    · rw [List.getElem?_append_left (by rw [rows_length]; nlinarith)]
      exact ih hin
    · have : i = n := by omega
      subst this
      rw [List.getElem?_append_right (by rw [rows_length]; omega), rows_length]
      simp [hj]

theorem gridPoints_length (nx ny : Nat) (sx sy z : ℝ) : (gridPoints nx ny sx sy z).length = nx * ny := by
  simp only [gridPoints]; exact rows_length _ ny nx

/-- pixel (i, j) of a grid sits at flat index i·ny + j and at position (i·sx, j·sy, z) -/
theorem C07_grid_point (nx ny : Nat) (sx sy z : ℝ) (i j : Nat) (hi : i < nx) (hj : j < ny) :
    (gridPoints nx ny sx sy z).getD (flatIndex ny i j) (0, 0, 0) = ((i : ℝ) * sx, (j : ℝ) * sy, z) := by
  simp only [gridPoints, flatIndex, List.getD_eq_getElem?_getD]
  rw [rows_get (fun i j => (((i : Nat) : ℝ) * sx, ((j : Nat) : ℝ) * sy, z)) nx ny i j hi hj]
  rfl

/-- selecting pixels commutes with any pointwise map -/
theorem select_map {β γ : Type} (f : β → γ) (sel : List Nat) (l : List β) (d : β) :
    (selectIdx sel l d).map f = selectIdx sel (l.map f) (f d) := by
  simp only [selectIdx, List.map_map]
  apply List.map_congr_left
  intro i _
  simp only [Function.comp, List.getD_eq_getElem?_getD, List.getElem?_map]
  cases l[i]? <;> simp

/-- for a pointwise solver, the forward calculation on any selection of the detector's points
(a crop, a random subset, a permutation, an explicit list) equals the selection of the full result -/
theorem C07_select_commutes (f : V3 ℝ → CV3 ℝ) (k : ℝ) (o : V3 ℝ) (pts : List (V3 ℝ)) (s : ℝ) (pol : List ℝ)
    (sel : List Nat) (d : V3 ℝ) :
    calcHolo (pointwise f) k o (selectIdx sel pts d) s pol =
      selectIdx sel (calcHolo (pointwise f) k o pts s pol)
        (holoPixel s (toVector pol)
          (let q := cartHandoff k o d
           let E := f (HoloGen.transform_cartesian_to_spherical q.1 q.2.1 q.2.2)
           let ph := phaseFactor k o.2.2
           (E.1 * ph, E.2.1 * ph, E.2.2 * ph))) := by
  simp only [calcHolo, calcField, fieldOf, pointwise, positionsSph, List.map_map]
  rw [select_map]
  simp [Function.comp]

/-- … in particular pixel (i, j) of a grid gets the value computed for the explicit point (i·sx, j·sy, z) -/
theorem C07_grid_vs_point (f : V3 ℝ → CV3 ℝ) (k : ℝ) (o : V3 ℝ) (nx ny : Nat) (sx sy z s : ℝ) (pol : List ℝ)
    (i j : Nat) (hi : i < nx) (hj : j < ny) :
    calcHolo (pointwise f) k o [((i : ℝ) * sx, (j : ℝ) * sy, z)] s pol =
      selectIdx [flatIndex ny i j] (calcHolo (pointwise f) k o (gridPoints nx ny sx sy z) s pol) 0 := by
  have h := C07_select_commutes f k o (gridPoints nx ny sx sy z) s pol [flatIndex ny i j] (0, 0, 0)
  simp only [selectIdx, List.map_cons, List.map_nil] at h ⊢
  rw [C07_grid_point nx ny sx sy z i j hi hj] at h
  rw [h]
  congr 1
  have hlt : flatIndex ny i j < (calcHolo (pointwise f) k o (gridPoints nx ny sx sy z) s pol).length := by
    simp only [calcHolo, calcField, fieldOf, pointwise, positionsSph, List.length_map, gridPoints_length, flatIndex]
    nlinarith
  simp [List.getD_eq_getElem?_getD, List.getElem?_eq_getElem hlt]

/-- subset selection keeps the values and the coordinates of the selected pixels and remembers the original axes -/
theorem C07_subset_keeps (nx ny : Nat) (sx sy z : ℝ) (data : List ℝ) (sel : List Nat) (n : Nat) (hn : n < sel.length) :
    let sub := makeSubset nx ny sx sy z data sel
    sub.vals[n]? = some (data.getD sel[n] 0) ∧
    sub.pts[n]? = some ((gridPoints nx ny sx sy z).getD sel[n] (0, 0, 0)) ∧
    sub.origDims.map (·.1) = ["z", "x", "y"] ∧ sub.vals.length = sel.length := by
  simp [makeSubset, selectIdx, hn]

/-- distinct pixels, given that the generator's `choice(replace=False)` returns distinct indices
(hypothesis about NumPy, not modelled) -/
theorem C07_distinct (nx ny : Nat) (sx sy z : ℝ) (data : List ℝ) (sel : List Nat) (hd : sel.Nodup) :
    ∀ a b (ha : a < sel.length) (hb : b < sel.length), a ≠ b → sel[a] ≠ sel[b] := by
  intro a b ha hb hab h
  exact hab ((List.Nodup.getElem_inj_iff hd).mp h)

end C07
