/-
The ℝ interpretation of the scalar interface (noncomputable; proofs only).
`atan2 y x := Complex.arg ⟨x, y⟩`, `fmod a b := a - b * ⌊a / b⌋`.
-/
import Mathlib.Analysis.SpecialFunctions.Trigonometric.Basic
import Mathlib.Analysis.SpecialFunctions.Complex.Arg
import Mathlib.Analysis.SpecialFunctions.Log.Basic
import Mathlib.Analysis.SpecialFunctions.Sqrt
import HoloModel.Scalar

open Holo

noncomputable instance : Transc ℝ where
  sqrt := Real.sqrt
  sin := Real.sin
  cos := Real.cos
  atan2 := fun y x => Complex.arg ⟨x, y⟩
  exp := Real.exp
  log := Real.log
  pi := Real.pi
  fmod := fun a b => a - b * (⌊a / b⌋ : ℝ)

@[simp] theorem t_sqrt (x : ℝ) : Transc.sqrt x = Real.sqrt x := rfl
@[simp] theorem t_sin (x : ℝ) : Transc.sin x = Real.sin x := rfl
@[simp] theorem t_cos (x : ℝ) : Transc.cos x = Real.cos x := rfl
@[simp] theorem t_atan2 (y x : ℝ) : Transc.atan2 y x = Complex.arg ⟨x, y⟩ := rfl
@[simp] theorem t_exp (x : ℝ) : Transc.exp x = Real.exp x := rfl
@[simp] theorem t_log (x : ℝ) : Transc.log x = Real.log x := rfl
@[simp] theorem t_pi : (Transc.pi : ℝ) = Real.pi := rfl
@[simp] theorem t_fmod (a b : ℝ) : Transc.fmod a b = a - b * (⌊a / b⌋ : ℝ) := rfl
@[simp] theorem t_lit (n : Nat) : (lit n : ℝ) = (n : ℝ) := rfl

theorem cos_atan2 (x y : ℝ) (h : (⟨x, y⟩ : ℂ) ≠ 0) :
    Real.cos (Complex.arg ⟨x, y⟩) = x / Real.sqrt (x*x + y*y) := by
  rw [Complex.cos_arg h, Complex.norm_def, Complex.normSq_mk]

theorem sin_atan2 (x y : ℝ) :
    Real.sin (Complex.arg ⟨x, y⟩) = y / Real.sqrt (x*x + y*y) := by
  rw [Complex.sin_arg, Complex.norm_def, Complex.normSq_mk]

/-- `fmod a (2π)` lies in `[0, 2π)` -/
theorem fmod_two_pi_mem (a : ℝ) :
    0 ≤ a - (2 * Real.pi) * (⌊a / (2 * Real.pi)⌋ : ℝ) ∧
      a - (2 * Real.pi) * (⌊a / (2 * Real.pi)⌋ : ℝ) < 2 * Real.pi := by
  have hp : 0 < 2 * Real.pi := by positivity
  have h1 := Int.floor_le (a / (2 * Real.pi))
  have h2 := Int.lt_floor_add_one (a / (2 * Real.pi))
  rw [le_div_iff₀ hp] at h1
  rw [div_lt_iff₀ hp] at h2
  constructor <;> nlinarith

/-- `fmod` only shifts by a multiple of `2π`: sine and cosine are unchanged -/
theorem cos_fmod_two_pi (a : ℝ) :
    Real.cos (a - (2 * Real.pi) * (⌊a / (2 * Real.pi)⌋ : ℝ)) = Real.cos a := by
  rw [show a - 2 * Real.pi * (⌊a / (2 * Real.pi)⌋ : ℝ) = a - (⌊a / (2 * Real.pi)⌋ : ℤ) * (2 * Real.pi) by ring]
  exact Real.cos_sub_int_mul_two_pi a _

theorem sin_fmod_two_pi (a : ℝ) :
    Real.sin (a - (2 * Real.pi) * (⌊a / (2 * Real.pi)⌋ : ℝ)) = Real.sin a := by
  rw [show a - 2 * Real.pi * (⌊a / (2 * Real.pi)⌋ : ℝ) = a - (⌊a / (2 * Real.pi)⌋ : ℤ) * (2 * Real.pi) by ring]
  exact Real.sin_sub_int_mul_two_pi a _
