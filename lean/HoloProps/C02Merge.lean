/-
C02 (interior merge) — two adjacent layers of a multilayered sphere that share one index scatter like
the one merged layer.  With the FUNCTION VALUES of the two Riccati-Bessel functions ψ, ζ (and of their
derivatives) at the layer radii as parameters this is pure field algebra: one step of Yang's recursion
(`Holo.yangStep`) outputs the logarithmic derivative of ONE solution `A ψ + B ζ` whose coefficients do
not depend on the outer radius, and an interface between equal indices only rescales `(A, B)` by the
non-zero factor `-m W / ((a ψ₁ + b ζ₁) ζ₁)`, `W = ψ ζ' − ψ' ζ` the Wronskian.
-/
import Mathlib.Data.Complex.Basic
import Mathlib.Analysis.Complex.Basic
import Mathlib.Tactic.Ring
import Mathlib.Tactic.FieldSimp
import Mathlib.Tactic.NormNum
import HoloModel.Mie

open Holo
namespace C02

/-- logarithmic derivative of the solution `a ψ + b ζ`, from the values `p = ψ(z)`, `z = ζ(z)` and the
derivatives `dp = ψ'(z)`, `dz = ζ'(z)` -/
noncomputable def logDer (a b p z dp dz : ℂ) : ℂ := (a * dp + b * dz) / (a * p + b * z)

/-- the logarithmic derivative only depends on the ray of `(a, b)` -/
theorem logDer_smul (k a b p z dp dz : ℂ) (hk : k ≠ 0) :
    logDer (k * a) (k * b) p z dp dz = logDer a b p z dp dz := by
  unfold logDer
  rw [show k * a * dp + k * b * dz = k * (a * dp + b * dz) by ring,
    show k * a * p + k * b * z = k * (a * p + b * z) by ring, mul_div_mul_left _ _ hk]

/-- one component of a step, with `r = ψ(z1)/ζ(z1)` and the two `G`s free -/
private theorem step_component (G1 G2 r p2 z2v dp2 dz2 : ℂ) (hp2 : p2 ≠ 0) (hz2 : z2v ≠ 0) :
    (G2 * (dp2 / p2) - r / (p2 / z2v) * G1 * (dz2 / z2v)) / (G2 - r / (p2 / z2v) * G1) =
      logDer G2 (-r * G1) p2 z2v dp2 dz2 := by
  unfold logDer
  have e1 : G2 * (dp2 / p2) - r / (p2 / z2v) * G1 * (dz2 / z2v) = (G2 * dp2 + -r * G1 * dz2) / p2 := by
    field_simp
    ring
  have e2 : G2 - r / (p2 / z2v) * G1 = (G2 * p2 + -r * G1 * z2v) / p2 := by
    field_simp
    ring
  rw [e1, e2, div_div_div_cancel_right₀ hp2]

/-- 1. for ARBITRARY indices the output of a step at ANY outer radius is the logarithmic derivative of one
solution `A ψ + B ζ` whose coefficients do not depend on the outer radius.  Only the outer values `ψ(z2)`,
`ζ(z2)` have to be non-zero (when the step's own denominator vanishes both sides are `0`) -/
theorem C02_step_is_logder (ml mlm1 hans hbns p1 z1v dp1 dz1 p2 z2v dp2 dz2 : ℂ)
    (hp2 : p2 ≠ 0) (hz2 : z2v ≠ 0) :
    (yangStep ml mlm1 hans hbns (dp1 / p1) (dz1 / z1v) (dp2 / p2) (dz2 / z2v) ((p1 / z1v) / (p2 / z2v))).1 =
      logDer (ml * hans - mlm1 * (dz1 / z1v)) (-(p1 / z1v) * (ml * hans - mlm1 * (dp1 / p1))) p2 z2v dp2 dz2 ∧
    (yangStep ml mlm1 hans hbns (dp1 / p1) (dz1 / z1v) (dp2 / p2) (dz2 / z2v) ((p1 / z1v) / (p2 / z2v))).2 =
      logDer (mlm1 * hbns - ml * (dz1 / z1v)) (-(p1 / z1v) * (mlm1 * hbns - ml * (dp1 / p1))) p2 z2v dp2 dz2 := by
  simp only [yangStep]
  exact ⟨step_component _ _ _ _ _ _ _ hp2 hz2, step_component _ _ _ _ _ _ _ hp2 hz2⟩

/-- the coefficients `(A, B)` that a same-index step makes of an incoming `logDer a b` are `(a, b)`
rescaled -/
private theorem equal_index_coeffs (m a b p1 z1v dp1 dz1 : ℂ)
    (hp1 : p1 ≠ 0) (hz1 : z1v ≠ 0) (hN : a * p1 + b * z1v ≠ 0) :
    m * logDer a b p1 z1v dp1 dz1 - m * (dz1 / z1v) =
        -(m * (dz1 * p1 - dp1 * z1v)) / ((a * p1 + b * z1v) * z1v) * a ∧
    -(p1 / z1v) * (m * logDer a b p1 z1v dp1 dz1 - m * (dp1 / p1)) =
        -(m * (dz1 * p1 - dp1 * z1v)) / ((a * p1 + b * z1v) * z1v) * b := by
  unfold logDer
  constructor
  · field_simp
    ring
  · have e : (a * dp1 + b * dz1) / (a * p1 + b * z1v) - dp1 / p1 =
        b * (dz1 * p1 - dp1 * z1v) / ((a * p1 + b * z1v) * p1) := by
      rw [div_sub_div _ _ hN hp1]
      congr 1
      ring
    rw [← mul_sub, e]
    field_simp

/-- 2. an interface between EQUAL indices propagates the same solution: it is invisible.
`hW` is the Wronskian of ψ, ζ at the interface -/
theorem C02_equal_index_interface (m a b c d p1 z1v dp1 dz1 p2 z2v dp2 dz2 hans hbns : ℂ)
    (hm : m ≠ 0) (hp1 : p1 ≠ 0) (hz1 : z1v ≠ 0) (hp2 : p2 ≠ 0) (hz2 : z2v ≠ 0)
    (hW : dz1 * p1 - dp1 * z1v ≠ 0)
    (hNa : a * p1 + b * z1v ≠ 0) (hNb : c * p1 + d * z1v ≠ 0)
    (ha : hans = logDer a b p1 z1v dp1 dz1) (hb : hbns = logDer c d p1 z1v dp1 dz1) :
    yangStep m m hans hbns (dp1 / p1) (dz1 / z1v) (dp2 / p2) (dz2 / z2v) ((p1 / z1v) / (p2 / z2v)) =
      (logDer a b p2 z2v dp2 dz2, logDer c d p2 z2v dp2 dz2) := by
  obtain ⟨h1, h2⟩ := C02_step_is_logder m m hans hbns p1 z1v dp1 dz1 p2 z2v dp2 dz2 hp2 hz2
  have hk : ∀ n : ℂ, n ≠ 0 → -(m * (dz1 * p1 - dp1 * z1v)) / (n * z1v) ≠ 0 := fun n hn =>
    div_ne_zero (neg_ne_zero.mpr (mul_ne_zero hm hW)) (mul_ne_zero hn hz1)
  refine Prod.ext ?_ ?_
  · rw [h1, ha]
    obtain ⟨eA, eB⟩ := equal_index_coeffs m a b p1 z1v dp1 dz1 hp1 hz1 hNa
    rw [eA, eB, logDer_smul _ _ _ _ _ _ _ (hk _ hNa)]
  · rw [h2, hb]
    obtain ⟨eA, eB⟩ := equal_index_coeffs m c d p1 z1v dp1 dz1 hp1 hz1 hNb
    rw [eA, eB, logDer_smul _ _ _ _ _ _ _ (hk _ hNb)]

/-- 3. two adjacent layers of the same index `m` (radii 1 → 2 → 3, entered from a layer of index `m0`)
give the same pair as the one merged layer 1 → 3.  `hW` is the Wronskian at the interior radius; `hDa`,
`hDb` say that the solutions `A ψ + B ζ` selected at radius 1 do not vanish at the interior radius (the
denominators of the first step, times `ψ(z2)`).  Nothing is needed at radius 1 -/
theorem C02_merge_adjacent_equal_layers
    (m m0 hans hbns p1 z1v dp1 dz1 p2 z2v dp2 dz2 p3 z3v dp3 dz3 : ℂ)
    (hm : m ≠ 0) (hp2 : p2 ≠ 0) (hz2 : z2v ≠ 0)
    (hW : dz2 * p2 - dp2 * z2v ≠ 0)
    (hDa : (m * hans - m0 * (dz1 / z1v)) * p2 + -(p1 / z1v) * (m * hans - m0 * (dp1 / p1)) * z2v ≠ 0)
    (hDb : (m0 * hbns - m * (dz1 / z1v)) * p2 + -(p1 / z1v) * (m0 * hbns - m * (dp1 / p1)) * z2v ≠ 0) :
    yangStep m m
        (yangStep m m0 hans hbns (dp1 / p1) (dz1 / z1v) (dp2 / p2) (dz2 / z2v) ((p1 / z1v) / (p2 / z2v))).1
        (yangStep m m0 hans hbns (dp1 / p1) (dz1 / z1v) (dp2 / p2) (dz2 / z2v) ((p1 / z1v) / (p2 / z2v))).2
        (dp2 / p2) (dz2 / z2v) (dp3 / p3) (dz3 / z3v) ((p2 / z2v) / (p3 / z3v)) =
      yangStep m m0 hans hbns (dp1 / p1) (dz1 / z1v) (dp3 / p3) (dz3 / z3v) ((p1 / z1v) / (p3 / z3v)) := by
  obtain ⟨h12a, h12b⟩ := C02_step_is_logder m m0 hans hbns p1 z1v dp1 dz1 p2 z2v dp2 dz2 hp2 hz2
  by_cases hp3 : p3 = 0
  · -- `ψ(z3) = 0`: Lean's `x / 0 = 0` makes both sides `(0, 0)`
    subst hp3
    simp [yangStep]
  by_cases hz3 : z3v = 0
  · -- `ζ(z3) = 0`: `q = 0` on both sides, and the second step's `G2` is the first one's rescaled
    subst hz3
    obtain ⟨eA, -⟩ := equal_index_coeffs m _ _ p2 z2v dp2 dz2 hp2 hz2 hDa
    obtain ⟨eAt, -⟩ := equal_index_coeffs m _ _ p2 z2v dp2 dz2 hp2 hz2 hDb
    have hk : ∀ n : ℂ, n ≠ 0 → -(m * (dz2 * p2 - dp2 * z2v)) / (n * z2v) ≠ 0 := fun n hn =>
      div_ne_zero (neg_ne_zero.mpr (mul_ne_zero hm hW)) (mul_ne_zero hn hz2)
    rw [← h12a] at eA
    rw [← h12b] at eAt
    simp only [yangStep] at eA eAt ⊢
    simp only [div_zero, zero_mul, mul_zero, sub_zero]
    have aux : ∀ k A d : ℂ, k ≠ 0 → k * A * d / (k * A) = A * d / A := fun k A d hk0 => by
      rw [mul_assoc, mul_div_mul_left _ _ hk0]
    rw [eA, eAt, aux _ _ _ (hk _ hDa), aux _ _ _ (hk _ hDb)]
  obtain ⟨h13a, h13b⟩ := C02_step_is_logder m m0 hans hbns p1 z1v dp1 dz1 p3 z3v dp3 dz3 hp3 hz3
  rw [C02_equal_index_interface m _ _ _ _ p2 z2v dp2 dz2 p3 z3v dp3 dz3 _ _
    hm hp2 hz2 hp3 hz3 hW hDa hDb h12a h12b]
  exact Prod.ext h13a.symm h13b.symm

/-- the hypotheses of the three theorems can hold together: `m = 2`, `m0 = 1`, `Hᵃ = Hᵇ = 1`,
`ψ = 1, ζ = 1, ψ' = 0, ζ' = 1` at the three radii (Wronskian `1`), `(a, b) = (1, 0)`, `(c, d) = (0, 1)` -/
example :
    let m : ℂ := 2; let m0 : ℂ := 1; let hans : ℂ := 1; let hbns : ℂ := 1
    let p1 : ℂ := 1; let z1v : ℂ := 1; let dp1 : ℂ := 0; let dz1 : ℂ := 1
    let p2 : ℂ := 1; let z2v : ℂ := 1; let dp2 : ℂ := 0; let dz2 : ℂ := 1
    let p3 : ℂ := 1; let z3v : ℂ := 1
    let a : ℂ := 1; let b : ℂ := 0; let c : ℂ := 0; let d : ℂ := 1
    m ≠ 0 ∧ p1 ≠ 0 ∧ z1v ≠ 0 ∧ p2 ≠ 0 ∧ z2v ≠ 0 ∧ p3 ≠ 0 ∧ z3v ≠ 0 ∧
    dz1 * p1 - dp1 * z1v ≠ 0 ∧ dz2 * p2 - dp2 * z2v ≠ 0 ∧
    a * p1 + b * z1v ≠ 0 ∧ c * p1 + d * z1v ≠ 0 ∧
    (m * hans - m0 * (dz1 / z1v)) * p2 + -(p1 / z1v) * (m * hans - m0 * (dp1 / p1)) * z2v ≠ 0 ∧
    (m0 * hbns - m * (dz1 / z1v)) * p2 + -(p1 / z1v) * (m0 * hbns - m * (dp1 / p1)) * z2v ≠ 0 := by
  norm_num

/-- … and the merge theorem instantiated at those numbers -/
example :
    yangStep (2 : ℂ) 2
        (yangStep (2 : ℂ) 1 1 1 (0 / 1) (1 / 1) (0 / 1) (1 / 1) ((1 / 1) / (1 / 1))).1
        (yangStep (2 : ℂ) 1 1 1 (0 / 1) (1 / 1) (0 / 1) (1 / 1) ((1 / 1) / (1 / 1))).2
        (0 / 1) (1 / 1) (0 / 1) (1 / 1) ((1 / 1) / (1 / 1)) =
      yangStep (2 : ℂ) 1 1 1 (0 / 1) (1 / 1) (0 / 1) (1 / 1) ((1 / 1) / (1 / 1)) :=
  C02_merge_adjacent_equal_layers 2 1 1 1 1 1 0 1 1 1 0 1 1 1 0 1
    (by norm_num) (by norm_num) (by norm_num) (by norm_num) (by norm_num) (by norm_num)

end C02
