/-
C04 — results depend only on dimensionless ratios (unit-agnostic).
Model: HoloModel/ImageFormation.lean — everything a solver receives is built from
k·(lengths) and index ratios.
-/
import Mathlib.Tactic.Ring
import Mathlib.Tactic.FieldSimp
import HoloProps.CxLemmas
import HoloModel.ImageFormation

open Holo Real
set_option linter.unusedSimpArgs false
namespace C04

def scaleV (l : ℝ) (p : V3 ℝ) : V3 ℝ := (l * p.1, l * p.2.1, l * p.2.2)

/-- the wavevector scales inversely with all lengths -/
theorem C04_wavevec_scaling (l L n : ℝ) (hl : l ≠ 0) (hL : L ≠ 0) (hn : n ≠ 0) :
    waveVec (l * L) n = waveVec L n / l := by
  simp only [waveVec, t_pi, t_lit]; field_simp

/-- the hand-off vector k·(detector − particle) is unchanged when every length is multiplied by `l` -/
theorem C04_handoff_scaling (l k : ℝ) (o p : V3 ℝ) (hl : l ≠ 0) :
    cartHandoff (k / l) (scaleV l o) (scaleV l p) = cartHandoff k o p := by
  simp only [cartHandoff, scaleV]; ext <;> simp only <;> field_simp

/-- size parameter k·r and phase k·z are unchanged -/
theorem C04_size_parameter (l k r : ℝ) (hl : l ≠ 0) : (k / l) * (l * r) = k * r := by field_simp

/-- hence fields, intensities and holograms are unchanged, for ANY solver that is a function of the
dimensionless positions it is handed -/
theorem C04_length_scaling (raw : List (V3 ℝ) → List (CV3 ℝ)) (l k : ℝ) (o : V3 ℝ) (pts : List (V3 ℝ)) (s : ℝ)
    (pol : List ℝ) (hl : l ≠ 0) :
    calcField raw (k / l) (scaleV l o) (pts.map (scaleV l)) = calcField raw k o pts ∧
    calcHolo raw (k / l) (scaleV l o) (pts.map (scaleV l)) s pol = calcHolo raw k o pts s pol ∧
    calcIntensity raw (k / l) (scaleV l o) (pts.map (scaleV l)) = calcIntensity raw k o pts := by
  have hpos : positionsSph (k / l) (scaleV l o) (pts.map (scaleV l)) = positionsSph k o pts := by
    simp only [positionsSph, List.map_map]
    apply List.map_congr_left
    intro p _
    simp only [Function.comp, C04_handoff_scaling l k o p hl]
  have hph : phaseFactor (k / l) (scaleV l o).2.2 = phaseFactor k o.2.2 := by
    simp only [phaseFactor, scaleV, C04_size_parameter l k _ hl]
  have hf : calcField raw (k / l) (scaleV l o) (pts.map (scaleV l)) = calcField raw k o pts := by
    simp only [calcField, fieldOf, hpos, hph]
  exact ⟨hf, by simp only [calcHolo, hf], by simp only [calcIntensity, hf]⟩

/-- cylindrical hand-off (MieLens, Lens) likewise -/
theorem C04_length_scaling_cyl (l k : ℝ) (o : V3 ℝ) (pts : List (V3 ℝ)) (hl : l ≠ 0) :
    positionsCyl (k / l) (scaleV l o) (pts.map (scaleV l)) = positionsCyl k o pts := by
  simp only [positionsCyl, List.map_map]
  apply List.map_congr_left
  intro p _
  simp only [Function.comp, C04_handoff_scaling l k o p hl]

/-- cross sections carry the prefactor 2π/k² (mie.py) — an area: multiplied by l² -/
theorem C04_cross_section_scaling (l k c : ℝ) (hl : l ≠ 0) (hk : k ≠ 0) :
    c * (2 * π / (k / l) ^ 2) = l ^ 2 * (c * (2 * π / k ^ 2)) := by
  field_simp

/-- replacing (n, n_m, L) by (n/n_m, 1, L/n_m) leaves the wavevector and the relative index unchanged -/
theorem C04_index_rescaling (n nm L : ℝ) (hm : nm ≠ 0) (hL : L ≠ 0) :
    waveVec (L / nm) 1 = waveVec L nm ∧ (n / nm) / 1 = n / nm := by
  simp only [waveVec, t_pi, t_lit]; constructor <;> field_simp

/-- T-matrix wrapper: the solver receives the dimensional equal-volume radius and wavelength; their
ratio, the aspect ratio and the index ratio are unchanged, and the wrapper multiplies the result by
−2πi/λ — so the output is scale-invariant provided the Fortran amplitude is homogeneous of degree 1
in (radius, wavelength) (hypothesis; searched) -/
theorem C04_tmatrix_ratios (l rxy rz lam A : ℝ) (hl : l ≠ 0) (hlam : lam ≠ 0) (hz : rz ≠ 0) :
    (l * rxy) / (l * rz) = rxy / rz ∧ (l * A) / (l * lam) = A / lam ∧
    (2 * π / (l * lam)) * (l * A) = (2 * π / lam) * A := by
  refine ⟨by field_simp, by field_simp, by field_simp⟩

end C04
