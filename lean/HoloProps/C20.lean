/-
C20 — scatterer containment, layers and overlaps match the analytic shapes.
Model: HoloModel/Geometry.lean.
-/
import Mathlib.Analysis.SpecialFunctions.Sqrt
import Mathlib.Data.Real.Sqrt
import Mathlib.Tactic.Ring
import Mathlib.Tactic.Linarith
import Mathlib.Tactic.Positivity
import Mathlib.Tactic.FieldSimp
import HoloModel.Geometry

open Holo
set_option linter.unusedSimpArgs false
namespace C20

/-! ### spheres and layers -/

theorem firstLayer_pos_iff (d2 : ℝ) (rs : List ℝ) (k : Nat) :
    0 < firstLayer d2 rs k ↔ ∃ r ∈ rs, d2 < r * r := by
  induction rs generalizing k with
  | nil => simp [firstLayer]
  | cons r rs ih =>
    simp only [firstLayer]
    split
    · rename_i h; simp; exact Or.inl h
    · rename_i h; rw [ih]; simp [h]

/-- a point is inside a (layered) sphere exactly when it is closer to the centre than some layer radius -/
theorem C20_sphere_contains (rs : List ℝ) (c p : V3 ℝ) :
    sphereContains rs c p = true ↔ ∃ r ∈ rs, norm2 (V3.sub p c) < r * r := by
  unfold sphereContains
  rw [decide_eq_true_iff]
  unfold sphereDomain
  exact firstLayer_pos_iff _ _ _

/-- single sphere: inside iff squared distance < r² -/
theorem C20_sphere_single (r : ℝ) (c p : V3 ℝ) :
    sphereContains [r] c p = true ↔ V3.dist2 p c < r * r := by
  rw [C20_sphere_contains]; simp [norm2, V3.sub, V3.dist2]

theorem firstLayer_eq (d2 : ℝ) (rs : List ℝ) (k0 k : Nat) :
    firstLayer d2 rs k0 = k0 + k + 1 ↔
      ∃ h : k < rs.length, d2 < rs[k] * rs[k] ∧ ∀ j (hj : j < k), ¬ d2 < (rs[j]'(by omega)) * (rs[j]'(by omega)) := by
  induction rs generalizing k0 k with
  | nil => simp [firstLayer]
  | cons r rs ih =>
    simp only [firstLayer]
    split
    · rename_i h
      constructor
      · intro e
        have : k = 0 := by omega
        subst this
        exact ⟨by simp, by simpa using h, by intro j hj; omega⟩
      · rintro ⟨hk, hlt, hall⟩
        cases k with
        | zero => rfl
        | succ k => exact absurd h (by simpa using hall 0 (by omega))
    · rename_i h
      cases k with
      | zero =>
        constructor
        · intro e
          have hpos : ∀ (l : List ℝ) (m : Nat), firstLayer d2 l m = 0 ∨ m < firstLayer d2 l m := by
            intro l; induction l with
            | nil => intro m; simp [firstLayer]
            | cons a l ihl =>
              intro m; simp only [firstLayer]; split
              · right; omega
              · rcases ihl (m + 1) with h0 | h1
                · left; exact h0
                · right; omega
          rcases hpos rs (k0 + 1) with h0 | h1 <;> omega
        · rintro ⟨_, hlt, _⟩; exact absurd (by simpa using hlt) h
      | succ k =>
        have := ih (k0 + 1) k
        rw [show k0 + (k + 1) + 1 = k0 + 1 + k + 1 by omega, this]
        constructor
        · rintro ⟨hk, hlt, hall⟩
          refine ⟨by simp; omega, by simpa using hlt, ?_⟩
          intro j hj
          cases j with
          | zero => simpa using h
          | succ j => simpa using hall j (by omega)
        · rintro ⟨hk, hlt, hall⟩
          refine ⟨by simp at hk; omega, by simpa using hlt, ?_⟩
          intro j hj
          simpa using hall (j + 1) (by omega)

/-- the reported layer is the first one (in list order) that contains the point -/
theorem C20_layer (rs : List ℝ) (c p : V3 ℝ) (k : Nat) :
    sphereDomain rs c p = k + 1 ↔
      ∃ h : k < rs.length, norm2 (V3.sub p c) < rs[k] * rs[k] ∧
        ∀ j (hj : j < k), ¬ norm2 (V3.sub p c) < (rs[j]'(by omega)) * (rs[j]'(by omega)) := by
  have := firstLayer_eq (norm2 (V3.sub p c)) rs 0 k
  simpa [sphereDomain] using this

/-- … and the reported refractive index is that layer's -/
theorem C20_index (ns : List ℂ) (bg : ℂ) (k : Nat) (h : k < ns.length) :
    indexAt ns bg (k + 1) = ns[k] ∧ indexAt ns bg 0 = bg := by
  simp [indexAt, List.getD_eq_getElem?_getD, List.getElem?_eq_getElem h]

/-! ### ellipsoid and the set operations -/

theorem C20_ellipsoid (r c p : V3 ℝ) :
    ellipsoidContains r c p = true ↔
      ((p.1 - c.1) / r.1) ^ 2 + ((p.2.1 - c.2.1) / r.2.1) ^ 2 + ((p.2.2 - c.2.2) / r.2.2) ^ 2 < 1 := by
  simp [ellipsoidContains, V3.sub, sq]

theorem C20_csg (a b : Shape ℝ) (p : V3 ℝ) :
    ((Shape.union a b).contains p = true ↔ a.contains p = true ∨ b.contains p = true) ∧
    ((Shape.difference a b).contains p = true ↔ a.contains p = true ∧ ¬ b.contains p = true) ∧
    ((Shape.intersection a b).contains p = true ↔ a.contains p = true ∧ b.contains p = true) := by
  simp [Shape.contains]

/-- translating a scatterer translates its containment region -/
theorem C20_translate (s : Shape ℝ) (v p : V3 ℝ) :
    (s.translated v).contains (V3.add p v) = s.contains p := by
  induction s with
  | sphere rs c =>
    have : V3.sub (V3.add p v) (V3.add c v) = V3.sub p c := by
      simp only [V3.sub, V3.add]; ext <;> simp
    have hd : sphereDomain rs (V3.add c v) (V3.add p v) = sphereDomain rs c p := by
      unfold sphereDomain; rw [this]
    simp only [Shape.translated, Shape.contains, sphereContains, hd]
  | ellipsoid r c =>
    have : V3.sub (V3.add p v) (V3.add c v) = V3.sub p c := by
      simp only [V3.sub, V3.add]; ext <;> simp
    simp only [Shape.translated, Shape.contains, ellipsoidContains, this]
  | union a b iha ihb => simp [Shape.translated, Shape.contains, iha, ihb]
  | difference a b iha ihb => simp [Shape.translated, Shape.contains, iha, ihb]
  | intersection a b iha ihb => simp [Shape.translated, Shape.contains, iha, ihb]

/-! ### bounding boxes -/

theorem lmax_ge (l : List ℝ) : ∀ r ∈ l, r ≤ lmax l ∧ 0 ≤ lmax l := by
  have key : ∀ (l : List ℝ) (a : ℝ), a ≤ l.foldl (fun a b => if a < b then b else a) a ∧
      ∀ r ∈ l, r ≤ l.foldl (fun a b => if a < b then b else a) a := by
    intro l
    induction l with
    | nil => intro a; simp
    | cons x xs ih =>
      intro a
      simp only [List.foldl_cons]
      by_cases hax : a < x
      · simp only [hax, if_true]
        obtain ⟨h1, h2⟩ := ih x
        refine ⟨by linarith, ?_⟩
        intro r hr
        rcases List.mem_cons.mp hr with rfl | hr
        · exact h1
        · exact h2 r hr
      · simp only [hax, if_false]
        obtain ⟨h1, h2⟩ := ih a
        refine ⟨h1, ?_⟩
        intro r hr
        rcases List.mem_cons.mp hr with rfl | hr
        · linarith [not_lt.mp hax]
        · exact h2 r hr
  intro r hr
  have := key l 0
  exact ⟨by simpa [lmax] using this.2 r hr, by simpa [lmax] using this.1⟩

theorem abs_lt_of_sq (x r : ℝ) (hr : 0 ≤ r) (h : x * x < r * r) : -r < x ∧ x < r := by
  constructor <;> nlinarith [mul_self_nonneg (x - r), mul_self_nonneg (x + r)]

theorem sphere_in_box (rs : List ℝ) (c p : V3 ℝ) (hnn : ∀ r ∈ rs, 0 ≤ r)
    (h : sphereContains rs c p = true) : inBox (Shape.sphere rs c).bounds p := by
  rw [C20_sphere_contains] at h
  obtain ⟨r, hr, hlt⟩ := h
  obtain ⟨hle, _⟩ := lmax_ge rs r hr
  have hr0 := hnn r hr
  have hR : r * r ≤ lmax rs * lmax rs := by nlinarith
  simp only [norm2, V3.sub] at hlt
  have hx := abs_lt_of_sq (p.1 - c.1) (lmax rs) (by linarith)
    (by nlinarith [mul_self_nonneg (p.2.1 - c.2.1), mul_self_nonneg (p.2.2 - c.2.2)])
  have hy := abs_lt_of_sq (p.2.1 - c.2.1) (lmax rs) (by linarith)
    (by nlinarith [mul_self_nonneg (p.1 - c.1), mul_self_nonneg (p.2.2 - c.2.2)])
  have hz := abs_lt_of_sq (p.2.2 - c.2.2) (lmax rs) (by linarith)
    (by nlinarith [mul_self_nonneg (p.1 - c.1), mul_self_nonneg (p.2.1 - c.2.1)])
  simp only [inBox, Shape.bounds]
  refine ⟨?_, ?_, ?_, ?_, ?_, ?_⟩ <;> linarith [hx.1, hx.2, hy.1, hy.2, hz.1, hz.2]

theorem div_sq_lt_one (x r : ℝ) (hr : 0 < r) (h : (x / r) * (x / r) < 1) : -r < x ∧ x < r := by
  have h2 : x * x < r * r := by
    have : (x / r) * (x / r) = x * x / (r * r) := by field_simp
    rw [this, div_lt_one (by positivity)] at h; exact h
  exact abs_lt_of_sq x r hr.le h2

theorem ellipsoid_in_box (r c p : V3 ℝ) (hr : 0 < r.1 ∧ 0 < r.2.1 ∧ 0 < r.2.2)
    (h : ellipsoidContains r c p = true) : inBox (Shape.ellipsoid r c).bounds p := by
  simp only [ellipsoidContains, V3.sub, decide_eq_true_eq, Nat.cast_one] at h
  have hx := div_sq_lt_one (p.1 - c.1) r.1 hr.1
    (by nlinarith [mul_self_nonneg ((p.2.1 - c.2.1) / r.2.1), mul_self_nonneg ((p.2.2 - c.2.2) / r.2.2)])
  have hy := div_sq_lt_one (p.2.1 - c.2.1) r.2.1 hr.2.1
    (by nlinarith [mul_self_nonneg ((p.1 - c.1) / r.1), mul_self_nonneg ((p.2.2 - c.2.2) / r.2.2)])
  have hz := div_sq_lt_one (p.2.2 - c.2.2) r.2.2 hr.2.2
    (by nlinarith [mul_self_nonneg ((p.1 - c.1) / r.1), mul_self_nonneg ((p.2.1 - c.2.1) / r.2.1)])
  simp only [inBox, Shape.bounds]
  refine ⟨?_, ?_, ?_, ?_, ?_, ?_⟩ <;> linarith [hx.1, hx.2, hy.1, hy.2, hz.1, hz.2]

/-- well-formed shapes: non-negative radii, positive semi-axes -/
def wf : Shape ℝ → Prop
  | .sphere rs _ => ∀ r ∈ rs, 0 ≤ r
  | .ellipsoid r _ => 0 < r.1 ∧ 0 < r.2.1 ∧ 0 < r.2.2
  | .union a b | .difference a b | .intersection a b => wf a ∧ wf b

theorem mn_le (a b : ℝ) : mn a b ≤ a ∧ mn a b ≤ b := by unfold mn; split <;> constructor <;> linarith
theorem le_mx (a b : ℝ) : a ≤ mx a b ∧ b ≤ mx a b := by unfold mx; split <;> constructor <;> linarith

theorem box_union_left (x y : Box ℝ) (p : V3 ℝ) (h : inBox x p) :
    inBox ((mn x.1.1 y.1.1, mx x.1.2 y.1.2), (mn x.2.1.1 y.2.1.1, mx x.2.1.2 y.2.1.2), (mn x.2.2.1 y.2.2.1, mx x.2.2.2 y.2.2.2)) p := by
  obtain ⟨h1, h2, h3, h4, h5, h6⟩ := h
  simp only [inBox]
  refine ⟨?_, ?_, ?_, ?_, ?_, ?_⟩
  · linarith [(mn_le x.1.1 y.1.1).1]
  · linarith [(le_mx x.1.2 y.1.2).1]
  · linarith [(mn_le x.2.1.1 y.2.1.1).1]
  · linarith [(le_mx x.2.1.2 y.2.1.2).1]
  · linarith [(mn_le x.2.2.1 y.2.2.1).1]
  · linarith [(le_mx x.2.2.2 y.2.2.2).1]

theorem box_union_right (x y : Box ℝ) (p : V3 ℝ) (h : inBox y p) :
    inBox ((mn x.1.1 y.1.1, mx x.1.2 y.1.2), (mn x.2.1.1 y.2.1.1, mx x.2.1.2 y.2.1.2), (mn x.2.2.1 y.2.2.1, mx x.2.2.2 y.2.2.2)) p := by
  obtain ⟨h1, h2, h3, h4, h5, h6⟩ := h
  simp only [inBox]
  refine ⟨?_, ?_, ?_, ?_, ?_, ?_⟩
  · linarith [(mn_le x.1.1 y.1.1).2]
  · linarith [(le_mx x.1.2 y.1.2).2]
  · linarith [(mn_le x.2.1.1 y.2.1.1).2]
  · linarith [(le_mx x.2.1.2 y.2.1.2).2]
  · linarith [(mn_le x.2.2.1 y.2.2.1).2]
  · linarith [(le_mx x.2.2.2 y.2.2.2).2]

/-- the reported bounding box contains every interior point (spheres, ellipsoids, and the three set operations) -/
theorem C20_bounds (s : Shape ℝ) (hwf : wf s) (p : V3 ℝ) (h : s.contains p = true) : inBox s.bounds p := by
  induction s with
  | sphere rs c => exact sphere_in_box rs c p hwf h
  | ellipsoid r c => exact ellipsoid_in_box r c p hwf h
  | union a b iha ihb =>
    simp only [Shape.contains, Bool.or_eq_true] at h
    rcases h with h | h
    · exact box_union_left _ _ p (iha hwf.1 h)
    · exact box_union_right _ _ p (ihb hwf.2 h)
  | difference a b iha ihb =>
    simp only [Shape.contains, Bool.and_eq_true] at h
    exact iha hwf.1 h.1
  | intersection a b iha ihb =>
    simp only [Shape.contains, Bool.and_eq_true] at h
    exact box_union_left _ _ p (iha hwf.1 h.1)

/-! ### overlaps -/

/-- the squared comparison used by the model is the documented `distance < R₁ + R₂` -/
theorem C20_overlap_pair (a b : V3 ℝ × ℝ) (ha : 0 ≤ a.2) (hb : 0 ≤ b.2) :
    overlapPair a b = true ↔ Real.sqrt (V3.dist2 a.1 b.1) < a.2 + b.2 := by
  simp only [overlapPair, decide_eq_true_eq]
  have hs : 0 ≤ a.2 + b.2 := by linarith
  rw [← Real.sqrt_lt_sqrt_iff (by simp only [V3.dist2]; nlinarith [mul_self_nonneg (a.1.1 - b.1.1), mul_self_nonneg (a.1.2.1 - b.1.2.1), mul_self_nonneg (a.1.2.2 - b.1.2.2)]), Real.sqrt_mul_self hs]

/-- the reported pairs are exactly the pairs i < j closer than the sum of their outer radii -/
theorem C20_overlaps (ss : List (V3 ℝ × ℝ)) (i j : Nat) :
    (i, j) ∈ overlaps ss ↔ ∃ (hi : i < ss.length) (hj : j < ss.length), i < j ∧ overlapPair ss[i] ss[j] = true := by
  simp only [overlaps, List.mem_flatMap, List.mem_range, List.mem_filterMap, List.mem_filter, decide_eq_true_eq]
  constructor
  · rintro ⟨i', hi', j', ⟨hj', hij⟩, hm⟩
    rw [List.getElem?_eq_getElem hi', List.getElem?_eq_getElem hj'] at hm
    simp only at hm
    split at hm
    · rename_i ho
      simp only [Option.some.injEq, Prod.mk.injEq] at hm
      obtain ⟨rfl, rfl⟩ := hm
      exact ⟨hi', hj', hij, ho⟩
    · exact absurd hm (by simp)
  · rintro ⟨hi, hj, hij, ho⟩
    refine ⟨i, hi, j, ⟨hj, hij⟩, ?_⟩
    rw [List.getElem?_eq_getElem hi, List.getElem?_eq_getElem hj]
    simp [ho]

/-- a warning is issued exactly when there is an overlap and warnings are enabled -/
theorem C20_warn_iff (ss : List (V3 ℝ × ℝ)) (w : Bool) :
    warns ss w = true ↔ (overlaps ss ≠ [] ∧ w = true) := by
  simp [warns, List.isEmpty_iff]

/-- the running maximum from 0 dominates every entry and is one of them or 0 -/
theorem lmax_spec (l : List ℝ) : (∀ r ∈ l, r ≤ lmax l) ∧ 0 ≤ lmax l ∧ (lmax l = 0 ∨ lmax l ∈ l) := by
  refine ⟨fun r hr => (lmax_ge l r hr).1, ?_, ?_⟩
  · have key : ∀ (l : List ℝ) (a : ℝ), a ≤ l.foldl (fun a b => if a < b then b else a) a := by
      intro l; induction l with
      | nil => intro a; simp
      | cons x xs ih =>
        intro a; simp only [List.foldl_cons]
        by_cases hax : a < x
        · simp only [hax, if_true]; linarith [ih x]
        · simp only [hax, if_false]; exact ih a
    simpa [lmax] using key l 0
  · have key : ∀ (l : List ℝ) (a : ℝ), l.foldl (fun a b => if a < b then b else a) a = a ∨
        l.foldl (fun a b => if a < b then b else a) a ∈ l := by
      intro l; induction l with
      | nil => intro a; simp
      | cons x xs ih =>
        intro a; simp only [List.foldl_cons]
        by_cases hax : a < x
        · simp only [hax, if_true]
          rcases ih x with h | h
          · right; rw [h]; simp
          · right; exact List.mem_cons_of_mem _ h
        · simp only [hax, if_false]
          rcases ih a with h | h
          · left; exact h
          · right; exact List.mem_cons_of_mem _ h
    simpa [lmax] using key l 0

/-- negative radii are rejected -/
theorem C20_ctor_rejects_negative (rs : List ℝ) : sphereCtorOk rs = false ↔ ∃ r ∈ rs, r < 0 := by
  simp [sphereCtorOk]

-- non-vacuity
example : wf (.difference (.sphere [1, 2] (0, 0, 0)) (.ellipsoid (1, 2, 3) (1, 0, 0))) := by
  simp [wf]

end C20
