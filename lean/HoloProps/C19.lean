/-
C19 — coordinate conversions and Euler rotations are mutually consistent.
All theorems are about the definitions in HoloGen/Math.lean, which are
REGENERATED from holopy/core/math.py on every run.
-/
import Mathlib.LinearAlgebra.Matrix.Determinant.Basic
import Mathlib.LinearAlgebra.Matrix.Notation
import Mathlib.Tactic.Ring
import Mathlib.Tactic.FinCases
import Mathlib.Tactic.LinearCombination
import Mathlib.Tactic.FieldSimp
import HoloProps.RealInst
import HoloGen.Math
import HoloModel.Rigid

open Matrix Real Holo HoloGen
set_option linter.unusedSimpArgs false

namespace C19

/-! ### Euler rotation matrix -/

noncomputable def rotM (a b g : ℝ) : Matrix (Fin 3) (Fin 3) ℝ :=
  Matrix.of fun i j => (rotation_matrix a b g).getD (3 * i.val + j.val) 0

noncomputable def Rz (t : ℝ) : Matrix (Fin 3) (Fin 3) ℝ := !![cos t, -sin t, 0; sin t, cos t, 0; 0, 0, 1]
noncomputable def Ry (t : ℝ) : Matrix (Fin 3) (Fin 3) ℝ := !![cos t, 0, sin t; 0, 1, 0; -sin t, 0, cos t]

/-- the documented z-y-z composition -/
theorem C19_zyz (a b g : ℝ) : rotM a b g = Rz g * Ry b * Rz a := by
  ext i j
  fin_cases i <;> fin_cases j <;>
    simp [rotM, rotation_matrix, Rz, Ry, Matrix.mul_apply, Fin.sum_univ_three] <;> ring

theorem Rz_orth (t : ℝ) : Rz t * (Rz t)ᵀ = 1 := by
  have h := sin_sq_add_cos_sq t
  ext i j
  fin_cases i <;> fin_cases j <;>
    simp [Rz, Matrix.mul_apply, Fin.sum_univ_three, Matrix.one_apply] <;> nlinarith [h]

theorem Ry_orth (t : ℝ) : Ry t * (Ry t)ᵀ = 1 := by
  have h := sin_sq_add_cos_sq t
  ext i j
  fin_cases i <;> fin_cases j <;>
    simp [Ry, Matrix.mul_apply, Fin.sum_univ_three, Matrix.one_apply] <;> nlinarith [h]

theorem C19_rotation_orthogonal (a b g : ℝ) : rotM a b g * (rotM a b g)ᵀ = 1 := by
  rw [C19_zyz, Matrix.transpose_mul, Matrix.transpose_mul]
  calc Rz g * Ry b * Rz a * ((Rz a)ᵀ * ((Ry b)ᵀ * (Rz g)ᵀ))
      = Rz g * (Ry b * (Rz a * (Rz a)ᵀ) * (Ry b)ᵀ) * (Rz g)ᵀ := by simp only [Matrix.mul_assoc]
    _ = 1 := by rw [Rz_orth, Matrix.mul_one, Ry_orth, Matrix.mul_one, Rz_orth]

theorem C19_rotation_orthogonal' (a b g : ℝ) : (rotM a b g)ᵀ * rotM a b g = 1 :=
  mul_eq_one_comm.mp (C19_rotation_orthogonal a b g)

theorem Rz_det (t : ℝ) : (Rz t).det = 1 := by
  have h := sin_sq_add_cos_sq t
  simp [Rz, Matrix.det_fin_three]; nlinarith [h]

theorem Ry_det (t : ℝ) : (Ry t).det = 1 := by
  have h := sin_sq_add_cos_sq t
  simp [Ry, Matrix.det_fin_three]; nlinarith [h]

theorem C19_det_one (a b g : ℝ) : (rotM a b g).det = 1 := by
  rw [C19_zyz, Matrix.det_mul, Matrix.det_mul, Rz_det, Ry_det, Rz_det]; norm_num

/-- `radians=False` is the radian matrix at `angle·π/180` -/
theorem C19_degrees (a b g : ℝ) :
    rotation_matrix_deg a b g = rotation_matrix (a * (π / 180)) (b * (π / 180)) (g * (π / 180)) := by
  simp [rotation_matrix_deg]

/-! ### rotating points -/

/-- `matVec` on the translated list is multiplication by `rotM` -/
theorem matVec_eq (a b g : ℝ) (p : V3 ℝ) :
    matVec (rotation_matrix a b g) p =
      ((rotM a b g).mulVec ![p.1, p.2.1, p.2.2] 0, (rotM a b g).mulVec ![p.1, p.2.1, p.2.2] 1,
       (rotM a b g).mulVec ![p.1, p.2.1, p.2.2] 2) := by
  simp [matVec, rotM, rotation_matrix, Matrix.mulVec, dotProduct, Fin.sum_univ_three]

/-- squared length is preserved by any matrix with `MᵀM = 1`, in the row-major list form -/
theorem matVec_norm (a b g : ℝ) (p : V3 ℝ) :
    let q := matVec (rotation_matrix a b g) p
    q.1 * q.1 + q.2.1 * q.2.1 + q.2.2 * q.2.2 = p.1 * p.1 + p.2.1 * p.2.1 + p.2.2 * p.2.2 := by
  have h := C19_rotation_orthogonal' a b g
  have e := fun i j => congrFun (congrFun h i) j
  have e00 := e 0 0; have e01 := e 0 1; have e02 := e 0 2
  have e11 := e 1 1; have e12 := e 1 2; have e22 := e 2 2
  simp [rotM, rotation_matrix, Matrix.mul_apply, Fin.sum_univ_three, Matrix.one_apply] at e00 e01 e02 e11 e12 e22
  obtain ⟨x, y, z⟩ := p
  simp only [matVec, rotation_matrix, List.getD_cons_zero, List.getD_cons_succ]
  linear_combination (x * x) * e00 + (2 * x * y) * e01 + (2 * x * z) * e02 + (y * y) * e11 +
    (2 * y * z) * e12 + (z * z) * e22

theorem matVec_sub (m : List ℝ) (p q : V3 ℝ) :
    matVec m (V3.sub p q) = V3.sub (matVec m p) (matVec m q) := by
  simp only [matVec, V3.sub]; ext <;> simp only <;> ring

/-- rotating points preserves their mutual distances -/
theorem C19_rotate_isometry (a b g : ℝ) (p q : V3 ℝ) :
    V3.dist2 (matVec (rotation_matrix a b g) p) (matVec (rotation_matrix a b g) q) = V3.dist2 p q := by
  have h := matVec_norm a b g (V3.sub p q)
  rw [matVec_sub] at h
  simpa [V3.dist2, V3.sub] using h

end C19
