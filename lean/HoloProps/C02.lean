/-
C02 — independent solvers agree on the field scattered by a single sphere; layered-sphere
reductions.  The numerical agreement itself is validated by correspondence (an independent Lorenz–Mie
series in Lean `Float`, HoloModel/Mie.lean) and by the search; the theorems here are the algebra:
the three coefficient formulas in the code base are the same function, and the layered recursion
reduces exactly to the homogeneous sphere when the layers share one index.
-/
import Mathlib.Data.Complex.Basic
import Mathlib.Analysis.Complex.Basic
import Mathlib.Tactic.Ring
import Mathlib.Tactic.FieldSimp
import Mathlib.Tactic.LinearCombination
import Mathlib.Tactic.Linarith
import HoloModel.Mie

open Holo
set_option linter.unusedSimpArgs false
namespace C02

/-- B&H eq. 4.53 (function values and derivatives) and the logarithmic-derivative form 4.88 used by
`miescatlib.scatcoeffs` are the same coefficient, given the recurrences ψ'ₙ = ψₙ₋₁ − (n/x)ψₙ,
ξ'ₙ = ξₙ₋₁ − (n/x)ξₙ and Dₙ(mx) = ψ'ₙ(mx)/ψₙ(mx) -/
theorem C02_bh453_eq_bh488 (m nx psiMx dpsiMx psiX psiXprev xiX xiXprev : ℂ)
    (hm : m ≠ 0) (hpsi : psiMx ≠ 0) :
    coeffA453 m psiMx dpsiMx psiX (psiXprev - nx * psiX) xiX (xiXprev - nx * xiX) =
      coeffA (dpsiMx / psiMx) m nx psiX psiXprev xiX xiXprev ∧
    coeffB453 m psiMx dpsiMx psiX (psiXprev - nx * psiX) xiX (xiXprev - nx * xiX) =
      coeffB (dpsiMx / psiMx) m nx psiX psiXprev xiX xiXprev := by
  constructor
  · simp only [coeffA453, coeffA]
    have e1 : (dpsiMx / psiMx / m + nx) * psiX - psiXprev = -(m * psiMx * (psiXprev - nx * psiX) - psiX * dpsiMx) / (m * psiMx) := by
      field_simp; ring
    have e2 : (dpsiMx / psiMx / m + nx) * xiX - xiXprev = -(m * psiMx * (xiXprev - nx * xiX) - xiX * dpsiMx) / (m * psiMx) := by
      field_simp; ring
    rw [e1, e2]
    have hmp : m * psiMx ≠ 0 := mul_ne_zero hm hpsi
    rw [div_div_div_cancel_right₀ hmp, neg_div_neg_eq]
  · simp only [coeffB453, coeffB]
    have e1 : (dpsiMx / psiMx * m + nx) * psiX - psiXprev = -(psiMx * (psiXprev - nx * psiX) - m * psiX * dpsiMx) / psiMx := by
      field_simp; ring
    have e2 : (dpsiMx / psiMx * m + nx) * xiX - xiXprev = -(psiMx * (xiXprev - nx * xiX) - m * xiX * dpsiMx) / psiMx := by
      field_simp; ring
    rw [e1, e2, div_div_div_cancel_right₀ hpsi, neg_div_neg_eq]

/-- the van de Hulst form of `calculate_al_bl` (mielensfunctions.py) is the B&H form on the same
function values … -/
theorem C02_vdh_eq_bh (m psiMx dpsiMx psiX dpsiX xiX dxiX : ℂ) :
    coeffAvdH m psiMx dpsiMx psiX dpsiX xiX dxiX = coeffA453 m psiMx dpsiMx psiX dpsiX xiX dxiX ∧
    coeffBvdH m psiMx dpsiMx psiX dpsiX xiX dxiX = coeffB453 m psiMx dpsiMx psiX dpsiX xiX dxiX := by
  constructor
  · simp only [coeffAvdH, coeffA453]
    rw [← neg_div_neg_eq]; congr 1 <;> ring
  · simp only [coeffBvdH, coeffB453]
    rw [← neg_div_neg_eq]; congr 1 <;> ring

/-- … and since it is evaluated with h⁽²⁾ (the conjugate Hankel function), for a real index and real
ψ values its coefficients are the complex conjugates of Bohren & Huffman's — the conjugation that
`Lens._calc_scattering_matrix` applies -/
theorem C02_vdh_is_conjugate (m psiMx dpsiMx psiX dpsiX : ℝ) (xiX dxiX : ℂ) :
    coeffAvdH (m : ℂ) psiMx dpsiMx psiX dpsiX (starRingEnd ℂ xiX) (starRingEnd ℂ dxiX) =
      starRingEnd ℂ (coeffA453 (m : ℂ) psiMx dpsiMx psiX dpsiX xiX dxiX) := by
  rw [(C02_vdh_eq_bh _ _ _ _ _ _ _).1]
  simp only [coeffA453, map_div₀, map_sub, map_mul, Complex.conj_ofReal]

/-- the same for an ABSORBING sphere: the van de Hulst coefficients evaluated at the CONJUGATE index
(with ψ(conj z) = conj ψ(z), which holds for the Riccati-Bessel functions because their power series have
real coefficients, and h⁽²⁾ = conj h⁽¹⁾ at the real size parameter) are the conjugates of Bohren &
Huffman's at the index itself.  Hence a lens theory built on `calculate_al_bl` must hand it the conjugate of
holopy's (B&H's, positive-imaginary = absorbing) relative index -/
theorem C02_vdh_conj_index (m psiMx dpsiMx : ℂ) (psiX dpsiX : ℝ) (xiX dxiX : ℂ) :
    coeffAvdH (starRingEnd ℂ m) (starRingEnd ℂ psiMx) (starRingEnd ℂ dpsiMx) psiX dpsiX
        (starRingEnd ℂ xiX) (starRingEnd ℂ dxiX) =
      starRingEnd ℂ (coeffA453 m psiMx dpsiMx psiX dpsiX xiX dxiX) ∧
    coeffBvdH (starRingEnd ℂ m) (starRingEnd ℂ psiMx) (starRingEnd ℂ dpsiMx) psiX dpsiX
        (starRingEnd ℂ xiX) (starRingEnd ℂ dxiX) =
      starRingEnd ℂ (coeffB453 m psiMx dpsiMx psiX dpsiX xiX dxiX) := by
  constructor
  · rw [(C02_vdh_eq_bh _ _ _ _ _ _ _).1]
    simp only [coeffA453, map_div₀, map_sub, map_mul, Complex.conj_ofReal]
  · rw [(C02_vdh_eq_bh _ _ _ _ _ _ _).2]
    simp only [coeffB453, map_div₀, map_sub, map_mul, Complex.conj_ofReal]

/-- without the conjugation of the index the coefficients are those of the gain medium `conj m`: the
defect MieLens had for absorbing spheres (repaired in /repo; regression statement) -/
theorem C02_vdh_unconjugated_is_gain (m psiMx dpsiMx : ℂ) (psiX dpsiX : ℝ) (xiX dxiX : ℂ) :
    coeffAvdH m psiMx dpsiMx psiX dpsiX (starRingEnd ℂ xiX) (starRingEnd ℂ dxiX) =
      starRingEnd ℂ (coeffA453 (starRingEnd ℂ m) (starRingEnd ℂ psiMx) (starRingEnd ℂ dpsiMx) psiX dpsiX xiX dxiX) := by
  have h := (C02_vdh_conj_index (starRingEnd ℂ m) (starRingEnd ℂ psiMx) (starRingEnd ℂ dpsiMx) psiX dpsiX xiX dxiX).1
  simpa using h

/-! ### layered spheres -/

/-- one step of Yang's recursion across an interface between two layers of the SAME index leaves
`Hᵃ = Hᵇ = D¹`: the interface is invisible -/
theorem C02_same_index_step (m d1z1 d3z1 d1z2 d3z2 q : ℂ) (hm : m ≠ 0) (hd : d1z1 ≠ d3z1) :
    yangStep m m d1z1 d1z1 d1z1 d3z1 d1z2 d3z2 q = (d1z2, d1z2) := by
  simp only [yangStep]
  have hG1 : m * d1z1 - m * d1z1 = 0 := by ring
  have hG2 : m * d1z1 - m * d3z1 ≠ 0 := by
    rw [← mul_sub]; exact mul_ne_zero hm (sub_ne_zero.mpr hd)
  rw [hG1]
  simp only [mul_zero, zero_mul, sub_zero]
  rw [mul_div_cancel_left₀ _ hG2]

/-- the layer recursion of `scatcoeffs_multi` for one order: layers are (index, size parameter) -/
noncomputable def yangFold (D1 D3 : ℂ → ℂ) (Q : ℂ → ℂ → ℂ) : ℂ × ℂ × ℂ → List (ℂ × ℂ) → ℂ × ℂ
  -- state: (index of the previous layer, size parameter of the previous layer), H's carried separately
  | (_, _, _), [] => (0, 0)
  | (mprev, xprev, h), (m, x) :: rest =>
    let z1 := m * xprev
    let z2 := m * x
    let r := yangStep m mprev h h (D1 z1) (D3 z1) (D1 z2) (D3 z2) (Q z1 z2)
    match rest with
    | [] => r
    | _ => yangFold D1 D3 Q (m, x, r.1) rest

/-- a layered sphere whose layers all share one index has the coefficients of the homogeneous
sphere: after any number of same-index layers `Hᵃ = Hᵇ = D¹(m·x_outer)`, which is what
`scatcoeffs` uses -/
theorem C02_layers_same_index (D1 D3 : ℂ → ℂ) (Q : ℂ → ℂ → ℂ) (m : ℂ) (hm : m ≠ 0)
    (hd : ∀ z, D1 z ≠ D3 z) (x0 : ℂ) (xs : List ℂ) (hne : xs ≠ []) :
    yangFold D1 D3 Q (m, x0, D1 (m * x0)) (xs.map fun x => (m, x)) =
      (D1 (m * xs.getLast hne), D1 (m * xs.getLast hne)) := by
  induction xs generalizing x0 with
  | nil => exact absurd rfl hne
  | cons x rest ih =>
    simp only [List.map_cons, yangFold]
    rw [C02_same_index_step m _ _ _ _ _ hm (hd _)]
    cases rest with
    | nil => simp
    | cons y ys =>
      simp only [List.map_cons]
      have := ih x (by simp)
      simp only [List.map_cons] at this
      rw [this]
      simp

/-- specifying layers by thickness or by outer radius is equivalent -/
theorem C02_thickness_vs_radius (a : ℝ) (l : List ℝ) :
    cumsumFrom a (diffsFrom a l) = l ∧ diffsFrom a (cumsumFrom a l) = l := by
  constructor
  · induction l generalizing a with
    | nil => rfl
    | cons r rs ih => simp only [diffsFrom, cumsumFrom]; rw [show a + (r - a) = r by ring, ih r]
  · induction l generalizing a with
    | nil => rfl
    | cons t ts ih => simp only [cumsumFrom, diffsFrom]; rw [show a + t - a = t by ring, ih (a + t)]

end C02
