/-
C08 (formula level) — why the numerical lens wrapper around Lorenz–Mie and the analytic MieLens theory are
the same formula.

For a sphere the scattering matrix does not depend on the azimuth (S3 = S4 = 0, S1 and S2 functions of θ),
so in `Lens._integrand_prll/_perp` the azimuthal sum at a fixed polar node acts on
  e(φ)·cos²ψ,  e(φ)·sin²ψ,  e(φ)·sinψ cosψ        (ψ = φ − pol_angle, e(φ) = exp(i kρ sinθ cos(φ − φ_p)))
only.  Writing `avg` for the azimuthal averaging (1/2π)∫dφ — any ℂ-linear functional on functions of φ —
the Bessel-integral identities

  avg e = J0,   avg (e·cos 2ψ) = −J2·cos 2φ',   avg (e·sin 2ψ) = −J2·sin 2φ'      (φ' = φ_p − pol_angle)

are HYPOTHESES here (they are analysis; the search compares the computed values).  From them alone the
per-node contributions of the wrapper are exactly those of MieLens:

  parallel:        ½[(S1 + S2)·J0 + (S1 − S2)·J2·cos 2φ']      = ½(i0 + i2 cos 2φ') integrand
  perpendicular:   ½ (S1 − S2)·J2·sin 2φ'                       = ½ i2 sin 2φ'       integrand

which pins every factor (½), the sign conventions (S⊥ + S∥ with J0, S⊥ − S∥ with J2) and the azimuth
being measured from the polarisation direction (`phi -= pol_angle`, the repaired sign).
-/
import Mathlib.Analysis.SpecialFunctions.Trigonometric.Basic
import Mathlib.Analysis.SpecialFunctions.Complex.Circle
import Mathlib.Algebra.Module.LinearMap.Defs
import Mathlib.Tactic.Ring
import Mathlib.Tactic.LinearCombination

open Complex

namespace C08Formula

/-- the wrapper's parallel integrand at one polar node as a function of the pupil azimuth φ
(`_integrand_prll` with S3 = S4 = 0; the common prefactor without its azimuthal phase is left out) -/
noncomputable def lensParallel (e : ℝ → ℂ) (S1 S2 : ℂ) (pol : ℝ) : ℝ → ℂ :=
  fun φ => e φ * ((Real.cos (φ - pol) : ℂ) * ((Real.cos (φ - pol) : ℂ) * S2) + (Real.sin (φ - pol) : ℂ) * ((Real.sin (φ - pol) : ℂ) * S1))

/-- … and the perpendicular one (`_integrand_perp`) -/
noncomputable def lensPerp (e : ℝ → ℂ) (S1 S2 : ℂ) (pol : ℝ) : ℝ → ℂ :=
  fun φ => e φ * ((Real.sin (φ - pol) : ℂ) * ((Real.cos (φ - pol) : ℂ) * S2) - (Real.cos (φ - pol) : ℂ) * ((Real.sin (φ - pol) : ℂ) * S1))

theorem lensParallel_eq (e : ℝ → ℂ) (S1 S2 : ℂ) (pol : ℝ) :
    lensParallel e S1 S2 pol =
      (((S1 + S2) / 2) • e) + (((S2 - S1) / 2) • fun φ => e φ * (Real.cos (2 * (φ - pol)) : ℂ)) := by
  funext φ
  simp only [lensParallel, Pi.add_apply, Pi.smul_apply, smul_eq_mul]
  have h2 : (Real.cos (2 * (φ - pol)) : ℂ) = 2 * (Real.cos (φ - pol) : ℂ) ^ 2 - 1 := by
    have := Real.cos_two_mul (φ - pol)
    exact_mod_cast this
  have h1 : (Real.sin (φ - pol) : ℂ) ^ 2 = 1 - (Real.cos (φ - pol) : ℂ) ^ 2 := by
    have := Real.sin_sq_add_cos_sq (φ - pol)
    have h : (Real.sin (φ - pol) : ℂ) ^ 2 + (Real.cos (φ - pol) : ℂ) ^ 2 = 1 := by exact_mod_cast this
    linear_combination h
  rw [h2]
  linear_combination (e φ * S1) * h1

theorem lensPerp_eq (e : ℝ → ℂ) (S1 S2 : ℂ) (pol : ℝ) :
    lensPerp e S1 S2 pol = (((S2 - S1) / 2) • fun φ => e φ * (Real.sin (2 * (φ - pol)) : ℂ)) := by
  funext φ
  simp only [lensPerp, Pi.smul_apply, smul_eq_mul]
  have h2 : (Real.sin (2 * (φ - pol)) : ℂ) = 2 * (Real.sin (φ - pol) : ℂ) * (Real.cos (φ - pol) : ℂ) := by
    have := Real.sin_two_mul (φ - pol)
    exact_mod_cast this
  rw [h2]; ring

/-- **formula-level agreement, parallel component**: with the Bessel-integral identities as hypotheses the
azimuthal average of the wrapper's integrand is MieLens's `½[(S⊥ + S∥) J0 + (S⊥ − S∥) J2 cos 2φ']` -/
theorem C08_formula_parallel (avg : (ℝ → ℂ) →ₗ[ℂ] ℂ) (e : ℝ → ℂ) (S1 S2 J0 J2 : ℂ) (pol phiP : ℝ)
    (h0 : avg e = J0)
    (hc : avg (fun φ => e φ * (Real.cos (2 * (φ - pol)) : ℂ)) = -J2 * (Real.cos (2 * (phiP - pol)) : ℂ)) :
    avg (lensParallel e S1 S2 pol) =
      (1 / 2) * ((S1 + S2) * J0 + (S1 - S2) * J2 * (Real.cos (2 * (phiP - pol)) : ℂ)) := by
  rw [lensParallel_eq, map_add, map_smul, map_smul, h0, hc]
  simp only [smul_eq_mul]; ring

/-- **perpendicular component**: `½ (S⊥ − S∥) J2 sin 2φ'` -/
theorem C08_formula_perp (avg : (ℝ → ℂ) →ₗ[ℂ] ℂ) (e : ℝ → ℂ) (S1 S2 J2 : ℂ) (pol phiP : ℝ)
    (hs : avg (fun φ => e φ * (Real.sin (2 * (φ - pol)) : ℂ)) = -J2 * (Real.sin (2 * (phiP - pol)) : ℂ)) :
    avg (lensPerp e S1 S2 pol) = (1 / 2) * ((S1 - S2) * J2 * (Real.sin (2 * (phiP - pol)) : ℂ)) := by
  rw [lensPerp_eq, map_smul, hs]
  simp only [smul_eq_mul]; ring

/-- the sign the code had before the repair (`phi + pol_angle`) cannot satisfy this for all polarisations:
with φ' replaced by φ_p + pol the perpendicular component differs unless sin 2(φ_p − pol) = sin 2(φ_p + pol);
witness φ_p = 0, pol = π/4 -/
theorem C08_formula_sign_witness :
    Real.sin (2 * (0 - Real.pi / 4)) ≠ Real.sin (2 * (0 + Real.pi / 4)) := by
  have h1 : 2 * (0 - Real.pi / 4) = -(Real.pi / 2) := by ring
  have h2 : 2 * (0 + Real.pi / 4) = Real.pi / 2 := by ring
  rw [h1, h2, Real.sin_neg, Real.sin_pi_div_two]
  norm_num

end C08Formula
