/-
C14 — priors are proper, match their samplers, and are closed under arithmetic.
Model: HoloModel/Prior.lean.
-/
import Mathlib.Probability.Distributions.Gaussian.Real
import Mathlib.MeasureTheory.Integral.IntervalIntegral.Basic
import Mathlib.Tactic.Ring
import Mathlib.Tactic.FieldSimp
import Mathlib.Tactic.Linarith
import HoloProps.RealInst
import HoloModel.Prior

open Holo Real ProbabilityTheory MeasureTheory
set_option linter.unusedSimpArgs false
namespace C14

/-! ### Uniform -/

/-- on the support of a proper Uniform the log-density is the log of the density -/
theorem C14_uniform_log_of_density (u : UniformP ℝ) (w p : ℝ) (hw : u.interval? = some w)
    (hin : u.outside p = false) :
    u.lnprob p = .fin (Real.log (u.prob p)) := by
  simp [UniformP.lnprob, UniformP.prob, hw, hin]

/-- outside the support: log-density −∞ and density 0 -/
theorem C14_uniform_outside (u : UniformP ℝ) (p : ℝ) (hout : u.outside p = true) :
    u.lnprob p = .ninf ∧ u.prob p = 0 := by
  simp [UniformP.lnprob, UniformP.prob, hout]

/-- for a proper Uniform, −∞ exactly where the density vanishes -/
theorem C14_uniform_ninf_iff (u : UniformP ℝ) (w p : ℝ) (hw : u.interval? = some w) (hpos : 0 < w) :
    u.lnprob p = .ninf ↔ u.prob p = 0 := by
  cases h : u.outside p <;> simp [UniformP.lnprob, UniformP.prob, hw, h, ne_of_gt hpos]

/-- the improper (half-infinite / infinite) Uniform returns the finite constant −1/EPS inside its
support although its density is 0: log-density ≠ log density there (intentional in the code) -/
theorem C14_improper_counterexample :
    let u : UniformP ℝ := ⟨.fin 0, .pinf, 0⟩
    u.lnprob 1 = .fin (-1000000) ∧ u.prob 1 = 0 := by
  simp [UniformP.lnprob, UniformP.prob, UniformP.outside, UniformP.interval?, Ext.gtVal, Ext.ltVal]

/-- the Uniform density integrates to one -/
theorem C14_uniform_integral (a b : ℝ) (h : a < b) : ∫ _ in a..b, (1 / (b - a) : ℝ) = 1 := by
  rw [intervalIntegral.integral_const]
  have : b - a ≠ 0 := by linarith
  simp [this]

/-- the default (or accepted) guess lies in the support -/
theorem C14_uniform_guess_in_support (lo hi : Ext ℝ) (g : Option ℝ) (u : UniformP ℝ)
    (h : mkUniform lo hi g = some u) : u.outside u.guess = false := by
  unfold mkUniform at h
  split at h
  · exact absurd h (by simp)
  · rename_i hge
    cases g with
    | some gv =>
      simp only at h
      split at h
      · exact absurd h (by simp)
      · rename_i hg
        injection h with h; subst h
        simpa [UniformP.outside] using hg
    | none =>
      simp only at h
      cases lo <;> cases hi <;> simp only [Option.some.injEq] at h <;> subst h <;>
        simp [UniformP.outside, Ext.gtVal, Ext.ltVal, Ext.ge] at hge ⊢
      constructor <;> linarith

/-- senseless bounds are rejected at construction -/
theorem C14_uniform_ctor_rejects (a b : ℝ) (g : Option ℝ) (h : b ≤ a) :
    mkUniform (.fin a) (.fin b) g = none := by
  simp [mkUniform, Ext.ge, h]

theorem C14_uniform_guess_rejects (a b gv : ℝ) (h : gv < a ∨ b < gv) :
    mkUniform (.fin a) (.fin b) (some gv) = none := by
  unfold mkUniform
  split
  · rfl
  · rcases h with h | h <;> simp [Ext.gtVal, Ext.ltVal, h]

/-- `scale_factor` is positive -/
theorem C14_uniform_scale_pos (lo hi : Ext ℝ) (g : Option ℝ) (u : UniformP ℝ)
    (h : mkUniform lo hi g = some u) : 0 < u.scaleFactor := by
  have hbounds : u.lower = lo ∧ u.upper = hi ∧ Ext.ge lo hi = false := by
    unfold mkUniform at h
    split at h
    · exact absurd h (by simp)
    · rename_i hge
      have hge' : Ext.ge lo hi = false := by simpa using hge
      cases g with
      | some gv =>
        simp only at h
        split at h
        · exact absurd h (by simp)
        · injection h with h; subst h; exact ⟨rfl, rfl, hge'⟩
      | none =>
        simp only at h
        cases lo <;> cases hi <;> simp only [Option.some.injEq] at h <;> subst h <;> exact ⟨rfl, rfl, hge'⟩
  obtain ⟨h1, h2, h3⟩ := hbounds
  unfold UniformP.scaleFactor
  split
  · rename_i hbig
    have : (0:ℝ) < ratio 1 1000000000000 := by simp [ratio]
    linarith
  · simp only [UniformP.interval?, h1, h2]
    cases lo <;> cases hi <;> simp [Ext.ge] at h3 ⊢
    linarith

theorem C14_scale_unscale (sf x : ℝ) (h : 0 < sf) : unscaleBy sf (scaleBy sf x) = x ∧ scaleBy sf (unscaleBy sf x) = x := by
  have : sf ≠ 0 := ne_of_gt h
  simp only [unscaleBy, scaleBy]; constructor <;> field_simp

/-! ### Gaussian -/

theorem C14_gaussian_ctor_rejects (mu sd : ℝ) (h : sd ≤ 0) : mkGaussian mu sd = none := by
  simp [mkGaussian, h]

theorem C14_bounded_ctor_rejects (mu sd a b : ℝ) (h : mu < a ∨ b < mu ∨ a = b) :
    mkBoundedGaussian mu sd (.fin a) (.fin b) = none := by
  unfold mkBoundedGaussian
  rcases h with h | h | h
  · simp [Ext.gtVal, h]
  · simp [Ext.ltVal, h]
  · simp [Ext.eqB, h]

theorem C14_gaussian_scale_pos (mu sd : ℝ) (g : GaussP ℝ) (h : mkGaussian mu sd = some g) : 0 < g.scaleFactor := by
  unfold mkGaussian at h
  split at h
  · exact absurd h (by simp)
  · rename_i hsd
    injection h with h; subst h
    unfold GaussP.scaleFactor
    split
    · rename_i hbig
      have : (0:ℝ) < ratio 1 1000000000000 := by simp [ratio]
      linarith
    · simpa using hsd

/-- the code's log-density is the log of a normalised Gaussian density -/
theorem exp_gaussLn (mu sd : ℝ) (hsd : 0 < sd) (p : ℝ) :
    Real.exp (gaussLn mu sd p) = gaussianPDFReal mu ⟨sd ^ 2, by positivity⟩ p := by
  unfold gaussLn gaussianPDFReal
  simp only [t_log, t_sqrt, t_pi, t_lit, Nat.cast_ofNat]
  rw [sub_eq_add_neg, Real.exp_add, Real.exp_neg, Real.exp_log (by positivity)]
  congr 1
  · congr 1
    show sd * √(2 * π) = √(2 * π * sd ^ 2)
    rw [show 2 * π * sd ^ 2 = sd ^ 2 * (2 * π) by ring, Real.sqrt_mul (sq_nonneg sd) (2 * π), Real.sqrt_sq hsd.le]
  · congr 1
    show -((p - mu) * (p - mu) / (2 * (sd * sd))) = -(p - mu) ^ 2 / (2 * sd ^ 2)
    ring

/-- `lnprob = log prob` for the Gaussian (`prob` is scipy's `norm.pdf`, modelled by `gaussPdf`) -/
theorem C14_gaussian_log_of_density (mu sd p : ℝ) (hsd : 0 < sd) :
    gaussLn mu sd p = Real.log (gaussPdf mu sd p) := by
  unfold gaussLn gaussPdf
  simp only [t_log, t_sqrt, t_pi, t_lit, t_exp, Nat.cast_ofNat]
  have h1 : 0 < sd * √(2 * π) := by positivity
  rw [Real.log_div (Real.exp_pos _).ne' h1.ne', Real.log_exp]
  ring

theorem C14_gaussian_integral (mu sd : ℝ) (hsd : 0 < sd) :
    ∫ p, Real.exp (gaussLn mu sd p) = 1 := by
  simp_rw [exp_gaussLn mu sd hsd]
  exact integral_gaussianPDFReal_eq_one mu (by
    intro h; have := congrArg NNReal.toReal h
    have h2 : sd ^ 2 = 0 := this
    exact (ne_of_gt hsd) ((pow_eq_zero_iff (two_ne_zero)).mp h2))

/-- BoundedGaussian: −∞ / 0 outside the bounds, the Gaussian values inside -/
theorem C14_bounded_support (g : GaussP ℝ) (p : ℝ) :
    (g.outside p = true → g.lnprob p = .ninf ∧ g.prob p = 0) ∧
    (g.outside p = false → g.lnprob p = .fin (gaussLn g.mu g.sd p) ∧ g.prob p = gaussPdf g.mu g.sd p) := by
  constructor <;> intro h <;> simp [GaussP.lnprob, GaussP.prob, h]

/-! ### rejection sampling -/

theorem outIdx_nil (out : ℝ → Bool) (val : List ℝ) (h : outIdx out val = []) : ∀ v ∈ val, out v = false := by
  intro v hv
  obtain ⟨i, hi, rfl⟩ := List.getElem_of_mem hv
  have : i ∉ outIdx out val := by rw [h]; simp
  simp only [outIdx, List.mem_filter, List.mem_range, hi, true_and] at this
  simpa [List.getElem?_eq_getElem hi] using this

/-- every value returned by the (repaired) sampling loop lies in the support, for every stream of
draws on which it terminates and every requested size -/
theorem C14_bounded_sample_in_support (out : ℝ → Bool) :
    ∀ fuel val draws r, sampleLoop out fuel val draws = some r → ∀ v ∈ r, out v = false := by
  intro fuel
  induction fuel with
  | zero => intro val draws r h; simp [sampleLoop] at h
  | succ n ih =>
    intro val draws r h
    simp only [sampleLoop] at h
    split at h
    · rename_i he
      injection h with h; subst h
      exact outIdx_nil out val (List.isEmpty_iff.mp he)
    · split at h
      · exact absurd h (by simp)
      · exact ih _ _ _ h

/-- regression: the loop as written before the repair returns a value outside [0, 1] -/
theorem C14_bounded_sample_defect_counterexample :
    sampleLoopDefect (fun v : Int => decide (v < 0) || decide (1 < v)) 10 [5, 0] [7, 9, 1] = some [7, 0] := by
  decide

-- non-vacuity: the repaired loop terminates on that stream, inside the support
example : sampleLoop (fun v : Int => decide (v < 0) || decide (1 < v)) 10 [5, 0] [7, 9, 1] = some [1, 0] := by decide

end C14
