/-
C11 (part 2) — distinct parameters, name-keyed vs positional values, ties, and the
scatterer ↔ parameter-dictionary round trip.  Model: HoloModel/Mapping.lean.
-/
import Mathlib.Data.List.Nodup
import Mathlib.Data.List.Basic
import Mathlib.Tactic.Linarith
import HoloProps.C11

open Holo
namespace C11

/-! ### one parameter per distinct prior -/

theorem findIdx_none_not_mem {ps : List Nat} {p : Nat} (h : ps.findIdx? (· == p) = none) : p ∉ ps := by
  intro hm
  rw [List.findIdx?_eq_none_iff] at h
  have := h p hm
  simp at this

theorem getIndex_nodup (m : Mapper) (pid cls : Nat) (pn : Option String) (name : String) (h : m.params.Nodup) :
    (m.getParameterIndex pid cls pn name).1.params.Nodup := by
  unfold Mapper.getParameterIndex
  split
  · rename_i hnone
    simp only [Mapper.addParameter]
    exact List.Nodup.append h (by simp) (by simpa using findIdx_none_not_mem hnone)
  · dsimp only; split <;> exact h

mutual
theorem convert_nodup (m : Mapper) (name : String) (v : Val) (h : m.params.Nodup) :
    (convertToMap m name v).1.params.Nodup := by
  cases v with
  | fixed x => simpa [convertToMap] using h
  | none => simpa [convertToMap] using h
  | prior pid cls pn => simpa [convertToMap] using getIndex_nodup m pid cls pn name h
  | lst vs => simpa [convertToMap] using convertList_nodup m _ false 0 vs h
  | dict kvs => simpa [convertToMap] using convertKeyed_nodup m _ kvs h
  | xarr d kvs => simpa [convertToMap] using convertKeyed_nodup m _ kvs h
  | tprior pn f base => simpa [convertToMap] using convertList_nodup m _ _ 0 base h
  | cprior pn re im =>
    simp only [convertToMap]
    exact convert_nodup _ _ im (convert_nodup m _ re h)
theorem convertList_nodup (m : Mapper) (pre : String) (single : Bool) (i : Nat) (vs : List Val) (h : m.params.Nodup) :
    (convertList m pre single i vs).1.params.Nodup := by
  cases vs with
  | nil => simpa [convertList] using h
  | cons v vs =>
    simp only [convertList]
    exact convertList_nodup _ pre single (i + 1) vs (convert_nodup m _ v h)
theorem convertKeyed_nodup (m : Mapper) (pre : String) (kvs : List (String × Val)) (h : m.params.Nodup) :
    (convertKeyed m pre kvs).1.params.Nodup := by
  cases kvs with
  | nil => simpa [convertKeyed] using h
  | cons kv kvs =>
    obtain ⟨k, v⟩ := kv
    simp only [convertKeyed]
    exact convertKeyed_nodup _ pre kvs (convert_nodup m _ v h)
end

/-- the model exposes one parameter per distinct prior (priors shared by identity are not duplicated) -/
theorem C11_one_parameter_per_prior (scatterer theory optics model : Val) :
    (ModelState.init scatterer theory optics model).mapper.params.Nodup := by
  simp only [ModelState.init]
  exact convert_nodup _ _ model (convert_nodup _ _ optics (convert_nodup _ _ theory (convert_nodup {} _ scatterer (by simp))))

/-- a new parameter gets a name that is not in use yet (whenever the `_0, _1, …` loop finds one
within its fuel; termination of that loop is not proved, see NOT_PROVED) -/
theorem dedup_fresh (names : List String) : ∀ fuel name r, dedupLoop names fuel name = some r → r ∉ names := by
  intro fuel
  induction fuel with
  | zero => intro name r h; simp [dedupLoop] at h
  | succ n ih =>
    intro name r h
    simp only [dedupLoop] at h
    split at h
    · split at h
      · exact ih _ _ h
      · exact absurd h (by simp)
    · rename_i hc
      injection h with h; subst h
      simpa using hc

theorem C11_add_parameter_fresh_partial (m : Mapper) (pid cls : Nat) (pn : Option String) (name r : String)
    (hn : m.names.Nodup)
    (hr : dedupLoop m.names (m.names.length + 2)
            (if m.names.contains (pn.getD name) then pn.getD name ++ "_0" else pn.getD name) = some r) :
    (m.addParameter pid cls pn name).names = m.names ++ [r] ∧ (m.addParameter pid cls pn name).names.Nodup := by
  have hfresh := dedup_fresh _ _ _ _ hr
  have e : (m.addParameter pid cls pn name).names = m.names ++ [r] := by
    simp only [Mapper.addParameter, hr, Option.getD_some]
  rw [e]
  exact ⟨rfl, List.Nodup.append hn (by simp) (by simpa using hfresh)⟩

/-! ### name-keyed and list-ordered values -/

/-- `ensure_parameters_are_listlike`: a name-keyed dictionary is read in parameter order, so with
distinct names both forms give the same value vector (and hence the same object) -/
theorem C11_dict_vs_list (names : List String) (vals : List Int) (hn : names.Nodup) (hl : vals.length = names.length) :
    names.map (fun n => ((names.zip vals).lookup n).getD 0) = vals := by
  induction names generalizing vals with
  | nil => cases vals <;> simp_all
  | cons n ns ih =>
    cases vals with
    | nil => simp at hl
    | cons v vs =>
      simp only [List.nodup_cons] at hn
      simp only [List.zip_cons_cons, List.map_cons, List.lookup_cons_self, Option.getD_some, List.cons.injEq, true_and]
      have hstep : ns.map (fun n' => (((n, v) :: ns.zip vs).lookup n').getD 0) = ns.map (fun n' => ((ns.zip vs).lookup n').getD 0) := by
        apply List.map_congr_left
        intro x hx
        have hne : (x == n) = false := by
          have : x ≠ n := fun h => hn.1 (h ▸ hx)
          simpa using this
        simp [List.lookup_cons, hne]
      rw [hstep]
      exact ih vs hn.2 (by simpa using hl)

/-! ### ties -/

mutual
def indicesOf : MapE → List Nat
  | .par i => [i]
  | .lst es => indicesOfList es
  | .dict kvs => indicesOfKeyed kvs
  | .xarr _ kvs => indicesOfKeyed kvs
  | .app _ es => indicesOfList es
  | _ => []
def indicesOfList : List MapE → List Nat
  | [] => []
  | e :: es => indicesOf e ++ indicesOfList es
def indicesOfKeyed : List (String × MapE) → List Nat
  | [] => []
  | (_, e) :: kvs => indicesOf e ++ indicesOfKeyed kvs
end

/-- the old value vector that corresponds to a new one after tying `S`: old parameter `j` reads
the new parameter `newIndex S j` (tied parameters all read the one that was kept) -/
def expand (S : List Nat) (n : Nat) (vals' : List Int) : List Int :=
  (List.range n).map fun j => vals'.getD (newIndex S j) 0

theorem expand_get (S : List Nat) (n : Nat) (vals' : List Int) (i : Nat) (hi : i < n) :
    (expand S n vals').getD i 0 = vals'.getD (newIndex S i) 0 := by
  simp [expand, List.getD_eq_getElem?_getD, hi]

mutual
theorem tie_read (S : List Nat) (n : Nat) (vals' : List Int) (e : MapE) (hb : ∀ i ∈ indicesOf e, i < n) :
    readMap vals' (editMap S e) = readMap (expand S n vals') e := by
  cases e with
  | fixed x => simp [editMap, readMap]
  | none => simp [editMap, readMap]
  | par i =>
    simp only [editMap, readMap]
    rw [expand_get S n vals' i (hb i (by simp [indicesOf]))]
  | lst es => simp only [editMap, readMap]; rw [tie_readList S n vals' es (by simpa [indicesOf] using hb)]
  | dict kvs => simp only [editMap, readMap]; rw [tie_readKeyed S n vals' kvs (by simpa [indicesOf] using hb)]
  | xarr d kvs => simp only [editMap, readMap]; rw [tie_readKeyed S n vals' kvs (by simpa [indicesOf] using hb)]
  | app f es => simp only [editMap, readMap]; rw [tie_readList S n vals' es (by simpa [indicesOf] using hb)]
theorem tie_readList (S : List Nat) (n : Nat) (vals' : List Int) (es : List MapE) (hb : ∀ i ∈ indicesOfList es, i < n) :
    readList vals' (editList S es) = readList (expand S n vals') es := by
  cases es with
  | nil => simp [editList, readList]
  | cons e es =>
    simp only [editList, readList]
    rw [tie_read S n vals' e (fun i hi => hb i (by simp [indicesOfList, hi])),
        tie_readList S n vals' es (fun i hi => hb i (by simp [indicesOfList, hi]))]
theorem tie_readKeyed (S : List Nat) (n : Nat) (vals' : List Int) (kvs : List (String × MapE))
    (hb : ∀ i ∈ indicesOfKeyed kvs, i < n) :
    readKeyed vals' (editKeyed S kvs) = readKeyed (expand S n vals') kvs := by
  cases kvs with
  | nil => simp [editKeyed, readKeyed]
  | cons kv kvs =>
    obtain ⟨k, e⟩ := kv
    simp only [editKeyed, readKeyed]
    rw [tie_read S n vals' e (fun i hi => hb i (by simp [indicesOfKeyed, hi])),
        tie_readKeyed S n vals' kvs (fun i hi => hb i (by simp [indicesOfKeyed, hi]))]
end

/-- after `add_tie`, reading the edited maps with a new value vector equals reading the old maps
with that vector expanded by repeating the tied value at every tied parameter -/
theorem C11_tie_read (S : List Nat) (n : Nat) (vals' : List Int) (e : MapE) (hb : ∀ i ∈ indicesOf e, i < n) :
    readMap vals' (editMap S e) = readMap (expand S n vals') e := tie_read S n vals' e hb

/-- the tied parameters all read the parameter that was kept (the smallest index), untied ones
below it keep their index -/
theorem C11_tie_indices (first : Nat) (rest : List Nat) (j : Nat) :
    (j ∈ first :: rest → newIndex (first :: rest) j = first) ∧
    (j ∉ first :: rest → j < first → newIndex (first :: rest) j = j) := by
  constructor
  · intro h; simp [newIndex, h]
  · intro h hlt
    have : (first :: rest).contains j = false := by simpa using h
    simp [newIndex, this, hlt]
    intro hh
    exact absurd (List.mem_cons.mpr hh) h

/-! ### scatterer ↔ parameter dictionary -/

theorem memberPart_self (i : Nat) (l : List (List Key × Int)) :
    memberPart i (l.map fun kv => (Key.idx i :: kv.1, kv.2)) = l := by
  induction l with
  | nil => rfl
  | cons x xs ih => simp only [memberPart, List.map_cons, List.filterMap_cons] at ih ⊢; simp [ih]

theorem memberPart_other (i j : Nat) (h : j ≠ i) (l : List (List Key × Int)) :
    memberPart i (l.map fun kv => (Key.idx j :: kv.1, kv.2)) = [] := by
  induction l with
  | nil => rfl
  | cons x xs ih => simp only [memberPart, List.map_cons, List.filterMap_cons] at ih ⊢; simp [h, ih]

theorem memberPart_append (i : Nat) (a b : List (List Key × Int)) :
    memberPart i (a ++ b) = memberPart i a ++ memberPart i b := by
  simp [memberPart, List.filterMap_append]

theorem memberPart_later (i k : Nat) (hk : i < k) (cs : List STree) : memberPart i (flattenChildren k cs) = [] := by
  induction cs generalizing k with
  | nil => simp [flattenChildren, memberPart]
  | cons c cs ih =>
    simp only [flattenChildren, memberPart_append]
    rw [memberPart_other i k (by omega), ih (k + 1) (by omega)]; rfl

/-- dictionaries have distinct keys -/
def wfTree : STree → Prop
  | .prim kvs => (kvs.map (·.1)).Nodup
  | .comp cs => ∀ c ∈ cs, wfTree c

theorem prim_roundtrip (kvs : List (String × Int)) (h : (kvs.map (·.1)).Nodup) :
    kvs.map (fun kv => (kv.1, (((kvs.map fun kv => ([Key.name kv.1], kv.2)).find? fun e => decide (e.1 = [Key.name kv.1])).map (·.2)).getD kv.2)) = kvs := by
  -- generalise: looking up in (pre ++ kvs) where no key of kvs occurs in pre
  have key : ∀ (pre kvs : List (String × Int)), (∀ kv ∈ kvs, kv.1 ∉ pre.map (·.1)) → (kvs.map (·.1)).Nodup →
      kvs.map (fun kv => (kv.1, ((((pre ++ kvs).map fun kv => ([Key.name kv.1], kv.2)).find? fun e => decide (e.1 = [Key.name kv.1])).map (·.2)).getD kv.2)) = kvs := by
    intro pre kvs
    induction kvs generalizing pre with
    | nil => intros; rfl
    | cons kv kvs ih =>
      intro hpre hnd
      simp only [List.map_cons, List.nodup_cons] at hnd
      simp only [List.map_cons, List.cons.injEq]
      constructor
      · -- the first entry with key kv.1 in pre ++ kv :: kvs is kv itself
        have hnot : ∀ e ∈ pre.map (fun kv => ([Key.name kv.1], kv.2)), decide (e.1 = [Key.name kv.1]) = false := by
          intro e he
          simp only [List.mem_map] at he
          obtain ⟨x, hx, rfl⟩ := he
          have : x.1 ≠ kv.1 := by
            intro hxe
            exact hpre kv (by simp) (by simp only [List.mem_map]; exact ⟨x, hx, hxe⟩)
          simp [this]
        rw [List.map_append, List.find?_append]
        rw [List.find?_eq_none.mpr (by intro e he; simpa using hnot e he)]
        simp
      · have := ih (pre ++ [kv]) (by
            intro x hx
            simp only [List.map_append, List.map_cons, List.map_nil, List.mem_append, List.mem_singleton, not_or]
            refine ⟨hpre x (by simp [hx]), ?_⟩
            intro hxe
            exact hnd.1 (by simp only [List.mem_map]; exact ⟨x, hx, hxe⟩)) hnd.2
        simpa [List.append_assoc] using this
  simpa using key [] kvs (by simp) h

mutual
theorem roundtrip (t : STree) (h : wfTree t) : t.fromParams t.flatten = t := by
  cases t with
  | prim kvs =>
    simp only [STree.flatten, STree.fromParams]
    congr 1
    exact prim_roundtrip kvs (by simpa [wfTree] using h)
  | comp cs =>
    simp only [STree.flatten, STree.fromParams]
    congr 1
    have := roundtripChildren [] 0 cs (by simpa [wfTree] using h) (by intro k _; rfl)
    simpa using this
theorem roundtripChildren (pre : List (List Key × Int)) (i : Nat) (cs : List STree) (h : ∀ c ∈ cs, wfTree c)
    (hpre : ∀ k, i ≤ k → memberPart k pre = []) :
    fromParamsChildren (pre ++ flattenChildren i cs) i cs = cs := by
  cases cs with
  | nil => simp [fromParamsChildren]
  | cons c cs =>
    simp only [flattenChildren, fromParamsChildren, List.cons.injEq]
    constructor
    · rw [memberPart_append, memberPart_append, hpre i (Nat.le_refl i), memberPart_self, memberPart_later i (i + 1) (by omega)]
      simpa using roundtrip c (h c (by simp))
    · have := roundtripChildren (pre ++ (c.flatten.map fun kv => (Key.idx i :: kv.1, kv.2))) (i + 1) cs
        (fun c' hc' => h c' (by simp [hc'])) (by
          intro k hk
          rw [memberPart_append, hpre k (by omega), memberPart_other k i (by omega)]; rfl)
      simpa [List.append_assoc] using this
end

/-- any scatterer rebuilt from its own parameter dictionary equals the original, for every nesting
of composites (keys as paths; the ':'-joined text form is an encoding checked by the correspondence) -/
theorem C11_roundtrip (t : STree) (h : wfTree t) : t.fromParams t.flatten = t := roundtrip t h

-- non-vacuity
example : wfTree (.comp [.prim [("n", 1), ("r", 2)], .comp [.prim [("n", 3)]]]) := by
  simp [wfTree]

end C11
