/-
C06 — superposition, polarisation linearity, multi-channel = stacked single-channel.
Models: HoloModel/ImageFormation.lean (incl. the Fortran projections translated from
mieangfuncs.f90) and HoloModel/Composite.lean.
-/
import Mathlib.Tactic.Ring
import Mathlib.Tactic.LinearCombination
import Mathlib.Data.List.Perm.Basic
import Mathlib.Data.List.Nodup
import HoloProps.CxLemmas
import HoloModel.ImageFormation
import HoloModel.Composite

open Holo HoloGen
set_option linter.unusedSimpArgs false
namespace C06

/-! ### superposition -/

def zeroField (n : Nat) : List (CV3 ℝ) := List.replicate n (⟨0, 0⟩, ⟨0, 0⟩, ⟨0, 0⟩)

theorem addField_length (a b : List (CV3 ℝ)) (h : a.length = b.length) : (addField a b).length = a.length := by
  simp [addField, h]

/-- pointwise: the k-th vector of the superposed field is the sum of the members' k-th vectors -/
theorem foldl_addField_get (fs : List (List (CV3 ℝ))) (f : List (CV3 ℝ)) (k : Nat)
    (hl : ∀ g ∈ fs, g.length = f.length) (hk : k < f.length) :
    ((fs.foldl addField f).getD k (⟨0,0⟩,⟨0,0⟩,⟨0,0⟩)).1 =
      (fs.map fun g => (g.getD k (⟨0,0⟩,⟨0,0⟩,⟨0,0⟩)).1).foldl (· + ·) (f.getD k (⟨0,0⟩,⟨0,0⟩,⟨0,0⟩)).1 := by
  induction fs generalizing f with
  | nil => simp
  | cons g gs ih =>
    simp only [List.foldl_cons, List.map_cons]
    have hg : g.length = f.length := hl g (by simp)
    have hlen : (addField f g).length = f.length := addField_length f g hg.symm
    rw [ih (addField f g) (fun g' hg' => by rw [hlen]; exact hl g' (by simp [hg'])) (by rw [hlen]; exact hk)]
    congr 1
    have hk2 : k < g.length := by omega
    simp [addField, List.getD_eq_getElem?_getD, List.getElem?_zipWith, List.getElem?_eq_getElem hk, List.getElem?_eq_getElem hk2]

/-- the field of a collection handled by superposition is the members' fields added up, member by
member in component-list order (x component shown; y and z are identical in form) -/
theorem C06_superposition (f : List (CV3 ℝ)) (fs : List (List (CV3 ℝ))) (k : Nat)
    (hl : ∀ g ∈ fs, g.length = f.length) (hk : k < f.length) :
    ((superpose (f :: fs)).getD k (⟨0,0⟩,⟨0,0⟩,⟨0,0⟩)).1 =
      (fs.map fun g => (g.getD k (⟨0,0⟩,⟨0,0⟩,⟨0,0⟩)).1).foldl (· + ·) (f.getD k (⟨0,0⟩,⟨0,0⟩,⟨0,0⟩)).1 := by
  simp only [superpose]; exact foldl_addField_get fs f k hl hk

/-- nested composites are flattened left to right -/
theorem C06_components_nested (a b : List ScTree) :
    (ScTree.node (ScTree.node a :: b)).components = componentsL a ++ componentsL b := by
  simp [ScTree.components, componentsL]

theorem C06_components_flat (ids : List Nat) : (ScTree.node (ids.map .leaf)).components = ids := by
  simp only [ScTree.components]
  induction ids with
  | nil => simp [componentsL]
  | cons i is ih => simp [componentsL, ScTree.components, ih]

/-! ### polarisation linearity of the Lorenz–Mie glue (on the translated Fortran) -/

theorem incfield_linear (a b ex ey fx fy phi : ℝ) :
    incfield (a * ex + b * fx) (a * ey + b * fy) phi =
      (a * (incfield ex ey phi).1 + b * (incfield fx fy phi).1, a * (incfield ex ey phi).2 + b * (incfield fx fy phi).2) := by
  simp only [incfield, t_cos, t_sin]; ext <;> simp only <;> ring

/-- `calc_scat_field` is linear in the incident polarisation, for every amplitude matrix -/
theorem calc_scat_field_linear (kr phi : ℝ) (s11 s12 s21 s22 : Cx ℝ) (a b : ℝ) :
    let E := calc_scat_field kr phi s11 s12 s21 s22 a b
    let Ex := calc_scat_field kr phi s11 s12 s21 s22 1 0
    let Ey := calc_scat_field kr phi s11 s12 s21 s22 0 1
    E = (Cx.smul a Ex.1 + Cx.smul b Ey.1, Cx.smul a Ex.2 + Cx.smul b Ey.2) := by
  simp only [calc_scat_field, incfield, t_cos, t_sin, t_lit]
  generalize (Cx.mk ((0:ℕ):ℝ) ((1:ℕ):ℝ) / Cx.ofReal kr) * Cx.exp (Cx.mk ((0:ℕ):ℝ) ((1:ℕ):ℝ) * Cx.ofReal kr) = pre
  ext <;> (apply Cx.ext' <;> simp <;> ring)

/-- the scattered field at a point is linear in the incident polarisation: for polarisation (a, b)
it equals a·field_x + b·field_y, for any amplitude matrix (Mie, or the generic scattering-matrix path) -/
theorem C06_polarisation_linear (s11 s12 s21 s22 : Cx ℝ) (kr theta phi a b : ℝ) :
    let E := smatPoint s11 s12 s21 s22 kr theta phi a b
    let Ex := smatPoint s11 s12 s21 s22 kr theta phi 1 0
    let Ey := smatPoint s11 s12 s21 s22 kr theta phi 0 1
    E = (Cx.smul a Ex.1 + Cx.smul b Ey.1, Cx.smul a Ex.2.1 + Cx.smul b Ey.2.1, Cx.smul a Ex.2.2 + Cx.smul b Ey.2.2) := by
  simp only [smatPoint]
  have h := calc_scat_field_linear kr phi s11 s12 s21 s22 a b
  simp only at h
  rw [h]
  generalize calc_scat_field kr phi s11 s12 s21 s22 1 0 = X
  generalize calc_scat_field kr phi s11 s12 s21 s22 0 1 = Y
  simp only [fieldstocart, t_cos, t_sin, t_lit]
  ext <;> (apply Cx.ext' <;> simp <;> ring)

/-- the radial term of `mie_fields` is linear in the polarisation as well -/
theorem C06_polarisation_linear_radial (S1 S2 erad : Cx ℝ) (kr theta phi a b : ℝ) :
    let E := miePointRad S1 S2 erad kr theta phi a b
    let Ex := miePointRad S1 S2 erad kr theta phi 1 0
    let Ey := miePointRad S1 S2 erad kr theta phi 0 1
    E = (Cx.smul a Ex.1 + Cx.smul b Ey.1, Cx.smul a Ex.2.1 + Cx.smul b Ey.2.1, Cx.smul a Ex.2.2 + Cx.smul b Ey.2.2) := by
  have h := C06_polarisation_linear S2 (Cx.ofReal (lit 0)) (Cx.ofReal (lit 0)) S1 kr theta phi a b
  simp only at h
  simp only [miePointRad, miePoint]
  simp only [smatPoint] at h
  rw [h]
  generalize fieldstocart (calc_scat_field kr phi S2 (Cx.ofReal (lit 0)) (Cx.ofReal (lit 0)) S1 1 0).1
    (calc_scat_field kr phi S2 (Cx.ofReal (lit 0)) (Cx.ofReal (lit 0)) S1 1 0).2 theta phi = X
  generalize fieldstocart (calc_scat_field kr phi S2 (Cx.ofReal (lit 0)) (Cx.ofReal (lit 0)) S1 0 1).1
    (calc_scat_field kr phi S2 (Cx.ofReal (lit 0)) (Cx.ofReal (lit 0)) S1 0 1).2 theta phi = Y
  simp only [radial_vect_to_cart, incfield, t_cos, t_sin]
  ext <;> (apply Cx.ext' <;> simp <;> ring)

/-! ### channels -/

/-- channel `c` of a multi-channel calculation is exactly the single-channel calculation with
channel c's wavelength, polarisation and the scatterer parameters selected for c -/
theorem C06_channels {β γ : Type} (single : ℝ → List ℝ → List (ParamVal β) → γ)
    (chans : List (Channel ℝ)) (params : List (ParamVal β)) (i : Nat) (hi : i < chans.length) :
    (calcMultiColor single chans params)[i]'(by simp [calcMultiColor, hi]) =
      (chans[i].label, single chans[i].wavelen chans[i].pol (params.map (·.select chans[i].label))) := by
  simp [calcMultiColor]

/-- selection is by label, not by position: re-ordering the keys of a dictionary does not change
the value a channel receives (keys distinct) -/
theorem C06_select_by_label {β : Type} (kvs kvs' : List (String × β)) (hp : kvs.Perm kvs')
    (hnd : (kvs.map (·.1)).Nodup) (illum : String) :
    kvs.lookup illum = kvs'.lookup illum := by
  have step : ∀ (x : String × β) (l : List (String × β)),
      (x :: l).lookup illum = if illum == x.1 then some x.2 else l.lookup illum := by
    intro x l
    show (match illum == x.1 with | true => some x.2 | false => List.lookup illum l) = _
    cases illum == x.1 <;> rfl
  induction hp with
  | nil => rfl
  | cons x _ ih =>
    simp only [List.map_cons, List.nodup_cons] at hnd
    rw [step, step, ih hnd.2]
  | swap x y l =>
    simp only [List.map_cons, List.nodup_cons, List.mem_cons, not_or] at hnd
    rw [step, step, step, step]
    by_cases h1 : (illum == y.1) = true <;> by_cases h2 : (illum == x.1) = true <;> simp [h1, h2]
    have e1 : illum = y.1 := by simpa using h1
    have e2 : illum = x.1 := by simpa using h2
    exact absurd (e1.symm.trans e2) hnd.1.1
  | trans h1 _ ih1 ih2 =>
    rw [ih1 hnd]
    exact ih2 ((h1.map _).nodup_iff.mp hnd)

theorem C06_select_plain {β : Type} (x : β) (illum : String) : (ParamVal.plain x).select illum = .plain x := rfl

theorem C06_select_hit {β : Type} (kvs : List (String × β)) (illum : String) (x : β)
    (h : kvs.lookup illum = some x) : (ParamVal.perChannel kvs).select illum = .plain x := by
  simp [ParamVal.select, h]

end C06
