/-
Algebra of the import-free `Cx ℝ` (the model's complex numbers) for proofs:
extensionality and unfolding lemmas so that identities reduce to `ring` /
`linear_combination` on real and imaginary parts.
-/
import Mathlib.Tactic.Ring
import Mathlib.Tactic.LinearCombination
import HoloProps.RealInst

open Holo

namespace Holo.Cx

theorem ext' {a b : Cx ℝ} (h1 : a.re = b.re) (h2 : a.im = b.im) : a = b := by
  cases a; cases b; simp only [Cx.mk.injEq]; exact ⟨h1, h2⟩

@[simp] theorem add_re (a b : Cx ℝ) : (a + b).re = a.re + b.re := rfl
@[simp] theorem add_im (a b : Cx ℝ) : (a + b).im = a.im + b.im := rfl
@[simp] theorem sub_re (a b : Cx ℝ) : (a - b).re = a.re - b.re := rfl
@[simp] theorem sub_im (a b : Cx ℝ) : (a - b).im = a.im - b.im := rfl
@[simp] theorem mul_re (a b : Cx ℝ) : (a * b).re = a.re * b.re - a.im * b.im := rfl
@[simp] theorem mul_im (a b : Cx ℝ) : (a * b).im = a.re * b.im + a.im * b.re := rfl
@[simp] theorem neg_re (a : Cx ℝ) : (-a).re = -a.re := rfl
@[simp] theorem neg_im (a : Cx ℝ) : (-a).im = -a.im := rfl
@[simp] theorem ofReal_re (r : ℝ) : (Cx.ofReal r).re = r := rfl
@[simp] theorem ofReal_im (r : ℝ) : (Cx.ofReal r).im = 0 := by simp [Cx.ofReal]
@[simp] theorem smul_re (r : ℝ) (a : Cx ℝ) : (Cx.smul r a).re = r * a.re := rfl
@[simp] theorem smul_im (r : ℝ) (a : Cx ℝ) : (Cx.smul r a).im = r * a.im := rfl
@[simp] theorem expI_re (t : ℝ) : (Cx.expI t : Cx ℝ).re = Real.cos t := rfl
@[simp] theorem expI_im (t : ℝ) : (Cx.expI t : Cx ℝ).im = Real.sin t := rfl
@[simp] theorem mk_re (a b : ℝ) : (Cx.mk a b).re = a := rfl
@[simp] theorem mk_im (a b : ℝ) : (Cx.mk a b).im = b := rfl

theorem div_re (a b : Cx ℝ) : (a / b).re = (a.re * b.re + a.im * b.im) / (b.re * b.re + b.im * b.im) := rfl
theorem div_im (a b : Cx ℝ) : (a / b).im = (a.im * b.re - a.re * b.im) / (b.re * b.re + b.im * b.im) := rfl

theorem normSq_def (a : Cx ℝ) : Cx.normSq a = a.re * a.re + a.im * a.im := rfl

theorem normSq_mul (a b : Cx ℝ) : Cx.normSq (a * b) = Cx.normSq a * Cx.normSq b := by
  simp only [normSq_def, mul_re, mul_im]; ring

theorem normSq_expI (t : ℝ) : Cx.normSq (Cx.expI t : Cx ℝ) = 1 := by
  simp only [normSq_def, expI_re, expI_im]
  have := Real.sin_sq_add_cos_sq t
  nlinarith

end Holo.Cx
