import HoloModel.Scalar
import HoloModel.IO
import HoloModel.Rigid
