import HoloModel.Scalar
import HoloModel.IO
import HoloModel.Rigid
import HoloModel.Fourier
import HoloModel.ImgProc
import HoloModel.Prior
import HoloModel.Geometry
import HoloModel.ImageFormation
