import HoloGen.Math
import HoloGen.Proj
import HoloGen.Tables
import HoloGen.TmGuards
