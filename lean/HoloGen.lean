import HoloGen.Math
import HoloGen.Proj
import HoloGen.Tables
import HoloGen.TmGuards
import HoloGen.PyPrior
import HoloGen.PyAcc
import HoloGen.PyTmatrix
