import HoloGen.Math
