import HoloGen.Math
import HoloGen.Proj
