/-
Line-protocol driver: one operation per input line, one output line each.
Run as `lake env lean --run Main.lean < ops.txt`.  Imports only the import-free
model libraries (HoloModel, HoloGen), so start-up is fast.
-/
import HoloModel
import HoloGen
open Holo HoloGen

def t3 (p : Float × Float × Float) : String := sFs [p.1, p.2.1, p.2.2]

def img2 (ny : Nat) (a : Array Float) : Nat → Nat → Float := fun i j => a.getD (i * ny + j) 0.0

def optImg (nx ny : Nat) (f : Nat → Nat → Option Float) : String :=
  let cells := (List.range nx).flatMap fun i => (List.range ny).map fun j => f i j
  if cells.any (·.isNone) then "err:BadImage" else sFs (cells.map (·.getD 0.0))

def gridOut (nx ny : Nat) (f : Nat → Nat → Float) : String :=
  sFs ((List.range nx).flatMap fun i => (List.range ny).map fun j => f i j)

def pExt (s : String) : Ext Float :=
  if s == "ninf" then .ninf else if s == "pinf" then .pinf else .fin (pF s)

def extF : Ext Float → Float
  | .fin v => v
  | .ninf => -(1.0 / 0.0)
  | .pinf => 1.0 / 0.0

partial def parsePE : List String → Option (PE × List String)
  | "P" :: i :: r => some (.prior (pN i), r)
  | "N" :: q :: r => some (.num (pQ q), r)
  | "B" :: r => some (.bad, r)
  | "neg" :: r => do let (a, r) ← parsePE r; pure (.neg a, r)
  | op :: r => do
      let (a, r) ← parsePE r
      let (b, r) ← parsePE r
      match op with
      | "add" => pure (.add a b, r)
      | "sub" => pure (.sub a b, r)
      | "mul" => pure (.mul a b, r)
      | "div" => pure (.div a b, r)
      | "pow" => pure (.pow a b, r)
      | _ => none
  | [] => none

def ratF (q : Rat) : Float := Float.ofInt q.num / Float.ofNat q.den

def showBuild (r : Except PErr (Option PT)) : String :=
  match r with
  | .ok (some t) => t.show
  | .ok none => "bad"
  | .error .typeError => "err:TypeError"
  | .error .zeroDivision => "err:ZeroDivisionError"

partial def parseShape : List String → Option (Shape Rat × List String)
  | "S" :: k :: r =>
      let n := pN k
      let rs := (r.take n).map pQ
      match r.drop n with
      | x :: y :: z :: rest => some (.sphere rs (pQ x, pQ y, pQ z), rest)
      | _ => none
  | "E" :: a :: b :: c :: x :: y :: z :: rest => some (.ellipsoid (pQ a, pQ b, pQ c) (pQ x, pQ y, pQ z), rest)
  | op :: r => do
      let (a, r) ← parseShape r
      let (b, r) ← parseShape r
      match op with
      | "U" => pure (.union a b, r)
      | "D" => pure (.difference a b, r)
      | "I" => pure (.intersection a b, r)
      | _ => none
  | [] => none

def quads {β : Type} : List β → List (β × β × β × β)
  | a :: b :: c :: d :: rest => (a, b, c, d) :: quads rest
  | _ => []

def cxs : List Float → List (Cx Float)
  | a :: b :: r => ⟨a, b⟩ :: cxs r
  | _ => []

def cv3s (l : List Float) : List (CV3 Float) := (triples (cxs l))
def flatCx (l : List (Cx Float)) : List Float := l.flatMap fun z => [z.re, z.im]
def flatCV3 (l : List (CV3 Float)) : List Float := flatCx (flat3 l)
def chunks {β : Type} (n : Nat) : Nat → List β → List (List β)
  | 0, _ => []
  | m + 1, l => l.take n :: chunks n m (l.drop n)

partial def parseTree : List String → Option (ScTree × List String)
  | "L" :: i :: r => some (.leaf (pN i), r)
  | "N" :: k :: r =>
      let rec go : Nat → List String → Option (List ScTree × List String)
        | 0, r => some ([], r)
        | n + 1, r => do
            let (c, r) ← parseTree r
            let (cs, r) ← go n r
            pure (c :: cs, r)
      do let (cs, r) ← go (pN k) r; pure (.node cs, r)
  | _ => none

def pairsSF : List String → List (String × Float)
  | a :: b :: r => (a, pF b) :: pairsSF r
  | _ => []

def optName (s : String) : Option String := if s == "-" then none else some s

partial def parseVal : List String → Option (Val × List String)
  | "F" :: i :: r => some (.fixed (pI i), r)
  | "Z" :: r => some (.none, r)
  | "P" :: i :: c :: n :: r => some (.prior (pN i) (pN c) (optName n), r)
  | "L" :: k :: r => do
      let (vs, r) ← parseVals (pN k) r
      pure (.lst vs, r)
  | "D" :: k :: r => do
      let (kvs, r) ← parseKVs (pN k) r
      pure (.dict kvs, r)
  | "X" :: dim :: k :: r => do
      let (kvs, r) ← parseKVs (pN k) r
      pure (.xarr dim kvs, r)
  | "T" :: n :: f :: k :: r => do
      let (vs, r) ← parseVals (pN k) r
      pure (.tprior (optName n) f vs, r)
  | "C" :: n :: r => do
      let (re, r) ← parseVal r
      let (im, r) ← parseVal r
      pure (.cprior (optName n) re im, r)
  | _ => none
where
  parseVals : Nat → List String → Option (List Val × List String)
    | 0, r => some ([], r)
    | n + 1, r => do
        let (v, r) ← parseVal r
        let (vs, r) ← parseVals n r
        pure (v :: vs, r)
  parseKVs : Nat → List String → Option (List (String × Val) × List String)
    | 0, r => some ([], r)
    | n + 1, k :: r => do
        let (v, r) ← parseVal r
        let (kvs, r) ← parseKVs n r
        pure ((k, v) :: kvs, r)
    | _, [] => none

partial def showMap : MapE → String
  | .fixed i => toString i
  | .none => "None"
  | .par i => "_parameter_" ++ toString i
  | .lst es => "[" ++ " ".intercalate (es.map showMap) ++ "]"
  | .dict kvs => "{" ++ " ".intercalate (kvs.map fun kv => kv.1 ++ "=" ++ showMap kv.2) ++ "}"
  | .xarr d kvs => "<" ++ d ++ " " ++ " ".intercalate (kvs.map fun kv => kv.1 ++ "=" ++ showMap kv.2) ++ ">"
  | .app f es => "(" ++ f ++ " " ++ " ".intercalate (es.map showMap) ++ ")"

partial def showObj : Obj → String
  | .fixed i => toString i
  | .none => "None"
  | .lst es => "[" ++ " ".intercalate (es.map showObj) ++ "]"
  | .dict kvs => "{" ++ " ".intercalate (kvs.map fun kv => kv.1 ++ "=" ++ showObj kv.2) ++ "}"
  | .xarr d kvs => "<" ++ d ++ " " ++ " ".intercalate (kvs.map fun kv => kv.1 ++ "=" ++ showObj kv.2) ++ ">"
  | .app f es => "(" ++ f ++ " " ++ " ".intercalate (es.map showObj) ++ ")"

def parseModel (toks : List String) : Option ModelState := do
  let (a, r) ← parseVal toks
  let (b, r) ← parseVal r
  let (c, r) ← parseVal r
  let (d, r) ← parseVal r
  if r.isEmpty then pure (ModelState.init a b c d) else none

def showState (s : ModelState) : String :=
  " ; ".intercalate (s.maps.map fun kv => kv.1 ++ ": " ++ showMap kv.2) ++ " ; names: " ++ ",".intercalate s.mapper.names

partial def parseSTree : List String → Option (STree × List String)
  | "S" :: k :: r =>
      let rec kvs : Nat → List String → Option (List (String × Int) × List String)
        | 0, r => some ([], r)
        | n + 1, key :: v :: r => do let (rest, r) ← kvs n r; pure ((key, pI v) :: rest, r)
        | _, _ => none
      do let (l, r) ← kvs (pN k) r; pure (.prim l, r)
  | "M" :: k :: r =>
      let rec cs : Nat → List String → Option (List STree × List String)
        | 0, r => some ([], r)
        | n + 1, r => do let (c, r) ← parseSTree r; let (rest, r) ← cs n r; pure (c :: rest, r)
      do let (l, r) ← cs (pN k) r; pure (.comp l, r)
  | _ => none

partial def parsePriors : List String → List (PriorM Float × Float)
  | "U" :: lo :: hi :: g :: v :: r =>
      match mkUniform (pExt lo) (pExt hi) (if g == "none" then none else some (pF g)) with
      | some u => (.uniform u, pF v) :: parsePriors r
      | none => parsePriors r
  | "G" :: mu :: sd :: v :: r =>
      match mkGaussian (pF mu) (pF sd) with
      | some g => (.gauss g, pF v) :: parsePriors r
      | none => parsePriors r
  | "B" :: mu :: sd :: lo :: hi :: v :: r =>
      match mkBoundedGaussian (pF mu) (pF sd) (pExt lo) (pExt hi) with
      | some g => (.gauss g, pF v) :: parsePriors r
      | none => parsePriors r
  | _ => []

def pNoise (s : String) : NoiseSrc Float :=
  if s == "none" then .isNone else if s == "absent" then .absent else .value (pF s)

partial def parseYVal : List String → Option (YVal × List String)
  | "pf" :: k :: r => some (.pyfloat (pI k), r)
  | "pi" :: k :: r => some (.pyint (pI k), r)
  | "pc" :: k :: r => some (.pycomplex (pI k), r)
  | "nf" :: k :: r => some (.npfloat (pI k), r)
  | "ni" :: k :: r => some (.npint (pI k), r)
  | "nc" :: k :: r => some (.npcomplex (pI k), r)
  | "s" :: t :: r => some (.str t, r)
  | "b" :: t :: r => some (.pybool (t == "1"), r)
  | "z" :: r => some (.none, r)
  | "d" :: c :: a :: r => some (.dflt c a, r)
  | "U" :: n :: r => some (.ufunc n, r)
  | "K" :: n :: r => some (.cls n, r)
  | "L" :: k :: r => do let (vs, r) ← many (pN k) r; pure (.list vs, r)
  | "T" :: k :: r => do let (vs, r) ← many (pN k) r; pure (.tuple vs, r)
  | "A" :: k :: r => do let (vs, r) ← many (pN k) r; pure (.arr vs, r)
  | "O" :: c :: k :: r => do let (kvs, r) ← fields (pN k) r; pure (.obj c kvs, r)
  | _ => none
where
  many : Nat → List String → Option (List YVal × List String)
    | 0, r => some ([], r)
    | n + 1, r => do let (v, r) ← parseYVal r; let (vs, r) ← many n r; pure (v :: vs, r)
  fields : Nat → List String → Option (List (String × YVal) × List String)
    | 0, r => some ([], r)
    | n + 1, k :: r => do let (v, r) ← parseYVal r; let (kvs, r) ← fields n r; pure ((k, v) :: kvs, r)
    | _, [] => none

partial def showNode : YNode → String
  | .num t k => "(" ++ t ++ " " ++ toString k ++ ")"
  | .text t s => "(" ++ t ++ " " ++ s ++ ")"
  | .bool b => "(bool " ++ toString b ++ ")"
  | .null => "(null)"
  | .dflt c a => "(default " ++ c ++ "." ++ a ++ ")"
  | .seq ns => "[" ++ " ".intercalate (ns.map showNode) ++ "]"
  | .map c kvs => "{!" ++ c ++ " " ++ " ".intercalate (kvs.map fun kv => kv.1 ++ "=" ++ showNode kv.2) ++ "}"

partial def showYVal : YVal → String
  | .pyfloat k => "pf" ++ toString k | .pyint k => "pi" ++ toString k | .pycomplex k => "pc" ++ toString k
  | .npfloat k => "nf" ++ toString k | .npint k => "ni" ++ toString k | .npcomplex k => "nc" ++ toString k
  | .str t => "s:" ++ t | .pybool b => "b:" ++ toString b | .none => "None"
  | .dflt _ _ => "default"
  | .list vs => "[" ++ " ".intercalate (vs.map showYVal) ++ "]"
  | .tuple vs => "(" ++ " ".intercalate (vs.map showYVal) ++ ")"
  | .arr vs => "<" ++ " ".intercalate (vs.map showYVal) ++ ">"
  | .obj c kvs => "{" ++ c ++ " " ++ " ".intercalate (kvs.map fun kv => kv.1 ++ "=" ++ showYVal kv.2) ++ "}"
  | .ufunc n => "ufunc:" ++ n | .cls n => "class:" ++ n

partial def parseAttrs : List String → List (String × AttrVal String)
  | k :: "N" :: r => (k, .none) :: parseAttrs r
  | k :: "P" :: v :: r => (k, .plain v) :: parseAttrs r
  | k :: "L" :: dim :: nc :: r =>
      let coords := r.take (pN nc)
      let r := r.drop (pN nc)
      match r with
      | nv :: r => (k, .labelled [(dim, coords)] (r.take (pN nv))) :: parseAttrs (r.drop (pN nv))
      | [] => []
  | _ => []

def showAttr : AttrVal String → String
  | .none => "None"
  | .plain v => v
  | .labelled coords vals => "<" ++ " ".intercalate (coords.map fun c => c.1 ++ ":" ++ ",".intercalate c.2) ++ "|" ++ ",".intercalate vals ++ ">"

def showAttrs (a : List (String × AttrVal String)) : String :=
  " ".intercalate (a.map fun kv => kv.1 ++ "=" ++ showAttr kv.2)

def splitAt (sep : String) (l : List String) : List String × List String :=
  (l.takeWhile (· != sep), (l.dropWhile (· != sep)).drop 1)

partial def parseFitPars : List String → List (FitPar Float × Float)
  | "U" :: lo :: hi :: g :: v :: r =>
      match mkUniform (pExt lo) (pExt hi) (if g == "none" then none else some (pF g)) with
      | some u => (⟨.uniform u, u.guess, u.scaleFactor, u.lower, u.upper⟩, pF v) :: parseFitPars r
      | none => parseFitPars r
  | "G" :: mu :: sd :: v :: r =>
      match mkGaussian (pF mu) (pF sd) with
      | some g => (⟨.gauss g, g.mu, g.scaleFactor, .ninf, .pinf⟩, pF v) :: parseFitPars r
      | none => parseFitPars r
  | "B" :: mu :: sd :: lo :: hi :: v :: r =>
      match mkBoundedGaussian (pF mu) (pF sd) (pExt lo) (pExt hi) with
      | some g => (⟨.gauss g, g.mu, g.scaleFactor, g.lower, g.upper⟩, pF v) :: parseFitPars r
      | none => parseFitPars r
  | _ => []

def abPairs : List (Cx Float) → List (Cx Float × Cx Float)
  | a :: b :: r => (a, b) :: abPairs r
  | _ => []

partial def parseSpecs : List String → List (SphereSpec Rat)
  | lay :: hc :: cx :: cy :: cz :: hr :: r :: rest =>
      { layered := lay == "1", center := if hc == "1" then some (pQ cx, pQ cy, pQ cz) else none,
        r := if hr == "1" then some (pQ r) else none } :: parseSpecs rest
  | _ => []

def showTheory (r : Except AutoErr TheoryName) : String :=
  match r with
  | .ok .mie => "Mie" | .ok .multisphere => "Multisphere" | .ok .tmatrix => "Tmatrix" | .ok .dda => "DDA"
  | .error .invalidScatterer => "err:InvalidScatterer" | .error .autoTheoryFailed => "err:AutoTheoryFailed"
  | .error .dependencyMissing => "err:DependencyMissing"

def step (line : String) : String :=
  match (line.trimAscii.toString.splitOn " ").filter (· ≠ "") with
  -- C19 ---------------------------------------------------------------
  | ["rot", a, b, g] => sFs (rotation_matrix (pF a) (pF b) (pF g))
  | ["rotdeg", a, b, g] => sFs (rotation_matrix_deg (pF a) (pF b) (pF g))
  | ["c2s", x, y, z] => t3 (transform_cartesian_to_spherical (pF x) (pF y) (pF z))
  | ["s2c", x, y, z] => t3 (transform_spherical_to_cartesian (pF x) (pF y) (pF z))
  | ["c2y", x, y, z] => t3 (transform_cartesian_to_cylindrical (pF x) (pF y) (pF z))
  | ["y2c", x, y, z] => t3 (transform_cylindrical_to_cartesian (pF x) (pF y) (pF z))
  | ["y2s", x, y, z] => t3 (transform_cylindrical_to_spherical (pF x) (pF y) (pF z))
  | ["s2y", x, y, z] => t3 (transform_spherical_to_cylindrical (pF x) (pF y) (pF z))
  | "rotpts" :: a :: b :: g :: pts =>
      sFs (flat3 (rotatedCenters (rotation_matrix (pF a) (pF b) (pF g)) (triples (pts.map pF))))
  | "matvec" :: a :: b :: g :: pts =>
      sFs (flat3 ((triples (pts.map pF)).map (matVec (rotation_matrix (pF a) (pF b) (pF g)))))
  | "transl" :: x :: y :: z :: pts =>
      sFs (flat3 (translatedCenters (pF x, pF y, pF z) (triples (pts.map pF))))
  | "rigid" :: a :: b :: g :: x :: y :: z :: pts =>
      sFs (flat3 (rigidCenters (rotation_matrix (pF a) (pF b) (pF g)) (pF x, pF y, pF z) (triples (pts.map pF))))
  | ["lut", f, t] =>
      match transformationLut.find? (fun e => e.1 == f && e.2.1 == t) with
      | some e => e.2.2
      | none => "err:NotImplementedError"
  -- C17 ---------------------------------------------------------------
  | ["shiftperm", "fft", n] => " ".intercalate ((fftshift (List.range (pN n))).map toString)
  | ["shiftperm", "ifft", n] => " ".intercalate ((ifftshift (List.range (pN n))).map toString)
  | ["ftcoord", sp, n] => sFs ((List.range (pN n)).map (ftCoordAt (pF sp) (pN n)))
  | ["iftcoord", sp, n] => sFs ((List.range (pN n)).map (iftCoordAt (pF sp) (pN n)))
  | "tf" :: lam :: d :: cfsp :: gf :: mn =>
      let gfo : Option Float := if gf == "none" then none else some (pF gf)
      let rec go : List String → List Float
        | m :: n :: rest =>
          let z := transFunc (pF lam) (pF d) (pN cfsp) gfo (pF m) (pF n)
          z.re :: z.im :: go rest
        | _ => []
      sFs (go mn)
  -- C18 ---------------------------------------------------------------
  | "normalize" :: nx :: ny :: vals =>
      let a := (vals.map pF).toArray
      gridOut (pN nx) (pN ny) (normalize (pN nx) (pN ny) (img2 (pN ny) a))
  | "zerofilter" :: nx :: ny :: vals =>
      let a := (vals.map pF).toArray
      optImg (pN nx) (pN ny) (zeroFilterAt (pN nx) (pN ny) (img2 (pN ny) a))
  | "bgcorrect" :: nx :: ny :: vals =>
      let a := (vals.map pF).toArray
      let n := pN nx * pN ny
      let raw := img2 (pN ny) (a.extract 0 n)
      let bg := img2 (pN ny) (a.extract n (2 * n))
      let df := img2 (pN ny) (a.extract (2 * n) (3 * n))
      optImg (pN nx) (pN ny) (bgCorrectAt (pN nx) (pN ny) raw bg df)
  | "detrend" :: nx :: ny :: vals =>
      let a := (vals.map pF).toArray
      gridOut (pN nx) (pN ny) (detrend2 (pN nx) (pN ny) (img2 (pN ny) a))
  | ["subimage", n, c, s] => " ".intercalate ((subimageIdx (pN n) (pQ c) (pQ s)).map toString)
  | "welford" :: npix :: k :: vals =>
      let a := (vals.map pF).toArray
      let np := pN npix
      let res := (List.range np).map fun p =>
        let xs := (List.range (pN k)).map fun t => a.getD (t * np + p) 0.0
        let s := xs.foldl Welford.push Welford.init
        (s.mean, Float.sqrt s.var)
      sFs (res.map (·.1) ++ res.map (·.2))
  -- C14 ---------------------------------------------------------------
  | ["uniform", lo, hi, g, p] =>
      match mkUniform (pExt lo) (pExt hi) (if g == "none" then none else some (pF g)) with
      | none => "err:ParameterSpecificationError"
      | some u => sFs [extF (u.lnprob (pF p)), u.prob (pF p), u.guess, u.scaleFactor]
  | ["gaussian", mu, sd, p] =>
      match mkGaussian (pF mu) (pF sd) with
      | none => "err:ParameterSpecificationError"
      | some g => sFs [extF (g.lnprob (pF p)), g.prob (pF p), g.mu, g.scaleFactor]
  | ["bgauss", mu, sd, lo, hi, p] =>
      match mkBoundedGaussian (pF mu) (pF sd) (pExt lo) (pExt hi) with
      | none => "err:ParameterSpecificationError"
      | some g => sFs [extF (g.lnprob (pF p)), g.prob (pF p), g.mu, g.scaleFactor]
  | "sample" :: lo :: hi :: k :: rest =>
      let vals := (rest.take (pN k)).map pF
      let draws := (rest.drop (pN k)).map pF
      let g : GaussP Float := ⟨0.0, 1.0, pExt lo, pExt hi⟩
      match sampleLoop g.outside 10000 vals draws with
      | some r => sFs r
      | none => "dry"
  | "build" :: toks =>
      match parsePE toks with
      | some (e, []) => showBuild (build e)
      | _ => "bad-op"
  | "evalbuild" :: g0 :: g1 :: g2 :: toks =>
      match parsePE toks with
      | some (e, []) =>
        match build e with
        | .ok (some t) =>
          let g : Nat → Float := fun i => if i == 0 then pF g0 else if i == 1 then pF g1 else pF g2
          sFs [t.eval g ratF Float.pow, e.eval g ratF Float.pow]
        | r => showBuild r
      | _ => "bad-op"
  -- C20 ---------------------------------------------------------------
  | "domain" :: k :: rest =>
      let n := pN k
      let rs := (rest.take n).map pQ
      match (rest.drop n).map pQ with
      | [cx, cy, cz, px, py, pz] => toString (sphereDomain rs (cx, cy, cz) (px, py, pz))
      | _ => "bad-op"
  | "contains" :: rest =>
      match parseShape rest with
      | some (sh, [x, y, z]) => toString (sh.contains (pQ x, pQ y, pQ z))
      | _ => "bad-op"
  | "tcontains" :: vx :: vy :: vz :: rest =>
      match parseShape rest with
      | some (sh, [x, y, z]) => toString ((sh.translated (pQ vx, pQ vy, pQ vz)).contains (pQ x, pQ y, pQ z))
      | _ => "bad-op"
  | "bounds" :: rest =>
      match parseShape rest with
      | some (sh, []) => let b := sh.bounds; sQs [b.1.1, b.1.2, b.2.1.1, b.2.1.2, b.2.2.1, b.2.2.2]
      | _ => "bad-op"
  | "overlaps" :: w :: rest =>
      let ss := (quads (rest.map pQ)).map fun q => ((q.1, q.2.1, q.2.2.1), q.2.2.2)
      let ov := overlaps ss
      " ".intercalate (ov.map fun p => toString p.1 ++ "," ++ toString p.2) ++ " | " ++ toString (warns ss (w == "1"))
  | "largest" :: rest =>
      let ss := (quads (rest.map pF)).map fun q => ((q.1, q.2.1, q.2.2.1), q.2.2.2)
      sF (largestOverlap ss)
  | "spherector" :: rest => if sphereCtorOk (rest.map pQ) then "ok" else "err:InvalidScatterer"
  -- image formation (C01, C04-C07) ----------------------------------------
  | "tovector" :: c => t3 (toVector (c.map pF))
  | ["wavevec", l, n] => sF (waveVec (pF l) (pF n))
  | "positions" :: sys :: k :: ox :: oy :: oz :: pts =>
      let o := (pF ox, pF oy, pF oz)
      let ps := triples (pts.map pF)
      sFs (flat3 (if sys == "cyl" then positionsCyl (pF k) o ps else positionsSph (pF k) o ps))
  | "positionsfromsph" :: k :: pts => sFs (flat3 (positionsFromSph (pF k) (triples (pts.map pF))))
  | ["gridpoints", nx, ny, sx, sy, z] => sFs (flat3 (gridPoints (pN nx) (pN ny) (pF sx) (pF sy) (pF z)))
  | "field" :: k :: cz :: raw => sFs (flatCV3 (fieldOf (pF k) (pF cz) (cv3s (raw.map pF))))
  | "holo" :: sc :: px :: py :: pz :: e =>
      sFs ((cv3s (e.map pF)).map (holoPixel (pF sc) (pF px, pF py, pF pz)))
  | "intensity" :: e => sFs ((cv3s (e.map pF)).map intensityPixel)
  | "superpose" :: m :: n :: fs =>
      let per := 6 * pN n
      sFs (flatCV3 (superpose ((chunks per (pN m) (fs.map pF)).map cv3s)))
  | "subset" :: nx :: ny :: sx :: sy :: z :: ns :: rest =>
      let sel := (rest.take (pN ns)).map pN
      let data := (rest.drop (pN ns)).map pF
      let sub := makeSubset (pN nx) (pN ny) (pF sx) (pF sy) (pF z) data sel
      sFs (sub.vals ++ flat3 sub.pts ++ sub.origDims.flatMap (·.2))
  | "components" :: toks =>
      match parseTree toks with
      | some (t, []) => " ".intercalate (t.components.map toString)
      | _ => "bad-op"
  | "selectparam" :: illum :: "plain" :: [v] =>
      match (ParamVal.plain (pF v)).select illum with
      | .plain x => "plain " ++ sF x
      | .perChannel _ => "perchannel"
  | "selectparam" :: illum :: "dict" :: kvs =>
      match (ParamVal.perChannel (pairsSF kvs)).select illum with
      | .plain x => "plain " ++ sF x
      | .perChannel _ => "perchannel"
  | "mielens" :: pol :: kz :: rest =>
      let rec goML : List Float → List Float
        | a :: b :: c :: d :: ph :: r =>
          let e := mielensPoint (⟨a, b⟩ : Cx Float) ⟨c, d⟩ ph (pF pol) (pF kz)
          flatCx [e.1, e.2.1, e.2.2] ++ goML r
        | _ => []
      sFs (goML (rest.map pF))
  | ["lrtoxyz", a, b, c, d, pol] =>
      let e := lrToXyz (⟨pF a, pF b⟩ : Cx Float) ⟨pF c, pF d⟩ (pF pol); sFs (flatCx [e.1, e.2.1, e.2.2])
  | "lenspoint" :: krho :: phiP :: kz :: pol :: rest =>
      let rec nodes : List Float → List (Float × Float × Float × Float × Cx Float × Cx Float × Cx Float × Cx Float)
        | th :: pq :: wt :: wp :: a :: b :: c :: d :: e :: f :: g :: h :: r =>
          (th, pq, wt, wp, ⟨a, b⟩, ⟨c, d⟩, ⟨e, f⟩, ⟨g, h⟩) :: nodes r
        | _ => []
      let e := lensPoint (nodes (rest.map pF)) (pF krho) (pF phiP) (pF kz) (pF pol)
      sFs (flatCx [e.1, e.2.1, e.2.2])
  | ["incfield", ex, ey, phi] => let r := incfield (pF ex) (pF ey) (pF phi); sFs [r.1, r.2]
  | ["fieldstocart", a, b, c, d, th, ph] =>
      let r := fieldstocart (⟨pF a, pF b⟩ : Cx Float) ⟨pF c, pF d⟩ (pF th) (pF ph); sFs (flatCx [r.1, r.2.1, r.2.2])
  | ["radialvect", a, b, th, ph] =>
      let r := radial_vect_to_cart (⟨pF a, pF b⟩ : Cx Float) (pF th) (pF ph); sFs (flatCx [r.1, r.2.1, r.2.2])
  | ["calcscatfield", kr, phi, a, b, c, d, e, f, g, h, e1, e2] =>
      let r := calc_scat_field (pF kr) (pF phi) (⟨pF a, pF b⟩ : Cx Float) ⟨pF c, pF d⟩ ⟨pF e, pF f⟩ ⟨pF g, pF h⟩ (pF e1) (pF e2)
      sFs (flatCx [r.1, r.2])
  | ["smatpoint", a, b, c, d, e, f, g, h, kr, th, ph, e1, e2] =>
      let r := smatPoint (⟨pF a, pF b⟩ : Cx Float) ⟨pF c, pF d⟩ ⟨pF e, pF f⟩ ⟨pF g, pF h⟩ (pF kr) (pF th) (pF ph) (pF e1) (pF e2)
      sFs (flatCx [r.1, r.2.1, r.2.2])
  | ["miepointrad", a, b, c, d, e, f, kr, th, ph, e1, e2] =>
      let r := miePointRad (⟨pF a, pF b⟩ : Cx Float) ⟨pF c, pF d⟩ ⟨pF e, pF f⟩ (pF kr) (pF th) (pF ph) (pF e1) (pF e2)
      sFs (flatCx [r.1, r.2.1, r.2.2])
  -- C08 ---------------------------------------------------------------
  | "aberphase" :: nc :: rest =>
      -- aberphase <ncoef> coefs… kz qs…  ->  pupilPhaseAberrated at each q
      let cs := (rest.take (pN nc)).map pF
      match rest.drop (pN nc) with
      | kz :: qs => sFs ((qs.map pF).map fun q => pupilPhaseAberrated cs (pF kz) q)
      | _ => "bad-op"
  | "pupilphase" :: kz :: qs => sFs ((qs.map pF).map fun q => pupilPhase (pF kz) q)
  | "mielensin" :: rest =>
      -- nodes: x w phase Sre Sim J
      let rec qnodes : List Float → List (Float × Float × Float × Cx Float × Float)
        | x :: w :: ph :: sr :: si :: j :: r => (x, w, ph, ⟨sr, si⟩, j) :: qnodes r
        | _ => []
      let v := mielensIn (qnodes (rest.map pF)); sFs [v.re, v.im]
  | ["mielensscattered", npts, krho, phi, a, b, c, d] =>
      let r := mielensScattered (pN npts) (pF krho) (pF phi) (⟨pF a, pF b⟩ : Cx Float) ⟨pF c, pF d⟩
      sFs (flatCx [r.1, r.2])
  | ["interpdecision", deg, win, ptp, n] => toString (interpolateDecision (pN deg) (pF win) (pF ptp) (pN n))
  | ["windows", w, xmin, xmax] =>
      let start := (Float.floor (pF xmin / pF w)).toInt64.toInt
      let stop := (Float.ceil (pF xmax / pF w + 1e-4)).toInt64.toInt + 1
      let bps : List Float := windowBreakpoints (pF w) start stop
      let wins := windowsOf bps
      sFs bps ++ " ; outside " ++ toString (outsideDomain (pF xmin) (pF xmax) (bps.headD 0.0) (bps.getLastD 0.0)) ++ " ; nwin " ++ toString wins.length
  | ["windowof", w, xmin, xmax, x] =>
      let start := (Float.floor (pF xmin / pF w)).toInt64.toInt
      let stop := (Float.ceil (pF xmax / pF w + 1e-4)).toInt64.toInt + 1
      let wins := windowsOf (windowBreakpoints (pF w) start stop : List Float)
      toString ((List.range wins.length).filter fun i => inWindow (pF x) (wins.getD i (0.0, 0.0)))
  | ["lensnodes", nt, np] =>
      let ntheta := pN nt; let nphi := pN np
      " ".intercalate ((List.range ntheta).flatMap fun it => (List.range nphi).map fun ip => toString (lensTableIndex ntheta nphi it ip)) ++ " ; " ++
      " ".intercalate ((lensNodePositions (List.range ntheta) (List.range nphi)).map fun p => toString p.1 ++ ":" ++ toString p.2)
  -- C10 ---------------------------------------------------------------
  | ["tmargs", kind, p1, p2, nre, nim, r1, r2, k, nmed] =>
      let sh : TmShape Float := if kind == "sphere" then .sphere (pF p1) else if kind == "spheroid" then .spheroid (pF p1) (pF p2) else .cylinder (pF p1) (pF p2)
      let a := tmArgs sh (pF nre) (pF nim) (0.0, pF r1, pF r2) (pF k) (pF nmed)
      sFs [a.axi, a.rat, a.lam, a.mrr, a.mri, a.eps, Float.ofInt a.np, Float.ofNat a.ndgs, a.alpha, a.beta]
  | ["eulerreduce", b, c] => let r := eulerReduce (pF b) (pF c); sFs [r.1, r.2]
  | ["anglesok", a, b, t, p] => toString (anglesOk (pF a) (pF b) (0.0 : Float) (pF t) 0.0 (pF p))
  | ["tmpack", lam, phiDeg, a, b, c, d, e, f, g, h] =>
      let m := tmPack (pF lam) (pF phiDeg) (⟨pF a, pF b⟩ : Cx Float) ⟨pF c, pF d⟩ ⟨pF e, pF f⟩ ⟨pF g, pF h⟩
      sFs (flatCx [m.1, m.2.1, m.2.2.1, m.2.2.2])
  | ["tmpoint", lam, a, b, c, d, e, f, g, h, kr, th, ph] =>
      let r := tmPoint (pF lam) (⟨pF a, pF b⟩ : Cx Float) ⟨pF c, pF d⟩ ⟨pF e, pF f⟩ ⟨pF g, pF h⟩ (pF kr) (pF th) (pF ph)
      sFs (flatCx [r.1, r.2.1, r.2.2])
  -- C11 ---------------------------------------------------------------
  | "mapper" :: toks =>
      match parseModel toks with
      | some st => showState st
      | none => "bad-op"
  | "readmaps" :: nv :: rest =>
      let vals := (rest.take (pN nv)).map pI
      match parseModel (rest.drop (pN nv)) with
      | some st => " ; ".intercalate (st.maps.map fun kv => kv.1 ++ ": " ++ showObj (readMap vals kv.2))
      | none => "bad-op"
  | "addtie" :: nn :: k :: rest =>
      let tie := rest.take (pN k)
      match parseModel (rest.drop (pN k)) with
      | some st =>
        match st.addTie tie (optName nn) with
        | some st' => showState st'
        | none => "err:ValueError"
      | none => "bad-op"
  | "flatten" :: toks =>
      match parseSTree toks with
      | some (t, []) => " ".intercalate (t.flatten.map fun kv => keyText kv.1 ++ "=" ++ toString kv.2)
      | _ => "bad-op"
  -- C12 ---------------------------------------------------------------
  | "lnlike" :: sd :: n :: rest =>
      let xs := rest.map pF
      sF (lnlikeScalar (xs.take (pN n)) (xs.drop (pN n)) (pF sd))
  | "lnlikepp" :: n :: rest =>
      let xs := rest.map pF
      let k := pN n
      sF (lnlikePerPixel (xs.take k) ((xs.drop k).take k) (xs.drop (2 * k)))
  | "lnprior" :: valid :: cons :: rest =>
      let pv := parsePriors rest
      sF (extF (lnprior (pv.map (·.1)) (pv.map (·.2)) (valid == "1") (cons == "1")))
  | ["findnoise", m, d, au] =>
      match findNoise (1.0 : Float) (pNoise m) (pNoise d) (au == "1") with
      | .ok v => sF v
      | .error _ => "err:MissingParameter"
  | "lnposterior" :: lp :: sd :: n :: rest =>
      let xs := rest.map pF
      let l : Ext Float := if lp == "ninf" then .ninf else .fin (pF lp)
      let r := lnposterior l (fun _ => xs.drop (pN n)) (xs.take (pN n)) (pF sd)
      sF (extF r.1) ++ " " ++ toString r.2
  | ["limitoverlaps", l, r, f] => toString (limitOverlapsOk (pF l) (pF r) (pF f))
  -- C15 ---------------------------------------------------------------
  | "yamlnode" :: toks =>
      match parseYVal toks with
      | some (v, []) => showNode (represent v)
      | _ => "bad-op"
  | "yamlload" :: toks =>
      match parseYVal toks with
      | some (v, []) => showYVal (construct ctorTable (represent v))
      | _ => "bad-op"
  -- C16 ---------------------------------------------------------------
  | "quantise" :: levels :: vs =>
      " ".intercalate ((vs.map pF).map fun v => toString (Float.floor (preQuant (pN levels) v)).toUInt64.toNat)
  | "displayscale" :: lo :: hi :: vs => sFs ((vs.map pF).map (displayScale (pF lo) (pF hi)))
  | "rescale" :: smin :: smax :: imin :: imax :: qs => sFs ((qs.map pF).map (rescaleOnLoad (pF smin) (pF smax) (pF imin) (pF imax)))
  | "packunpack" :: toks => showAttrs (unpackAttrs (fun (t : String) => t) (packAttrs (fun (v : String) => v) (parseAttrs toks)))
  | "updatemeta" :: toks =>
      let (a, b) := splitAt "|" toks
      showAttrs (updatedAttrs (parseAttrs a) (parseAttrs b))
  | "dicttoarray" :: toks =>
      -- dicttoarray <ncoords> (<dim> <n> <labels…>)* | (<key> <value>)*
      let (a, b) := splitAt "|" toks
      let rec coords : Nat → List String → List (String × List String)
        | 0, _ => []
        | k + 1, dim :: n :: rest => (dim, rest.take (pN n)) :: coords k (rest.drop (pN n))
        | _, _ => []
      let rec pairs : List String → List (String × String)
        | k :: v :: rest => (k, v) :: pairs rest
        | _ => []
      match a with
      | nc :: rest =>
        match dictToArray (coords (pN nc) rest) (pairs b) with
        | some (.labelled [(dim, labels)] vals) => dim ++ ":" ++ ",".intercalate labels ++ "|" ++ ",".intercalate vals ++
            " ; by-label: " ++ " ".intercalate ((sortLabels labels).map fun l => l ++ "=" ++ ((AttrVal.labelled [(dim, labels)] vals).sel l).getD "?")
        | _ => "err:ValueError"
      | _ => "bad-op"
  -- C13 ---------------------------------------------------------------
  | "parinfo" :: rest =>
      let ps := (parseFitPars rest).map (·.1)
      " ".intercalate (ps.map fun p =>
        let i := nmpParinfo p
        sF i.value ++ " " ++ toString i.limitedLo ++ " " ++ toString i.limitedHi ++ " " ++
          (match i.limitLo with | some v => sF v | none => "nan") ++ " " ++ (match i.limitHi with | some v => sF v | none => "nan"))
  | "nmpresid" :: sd :: n :: rest =>
      let k := pN n
      let xs := (rest.take (2 * k)).map pF
      let pv := parseFitPars (rest.drop (2 * k))
      sFs (nmpResiduals (pv.map (·.1)) (pv.map (·.2)) (xs.take k) (xs.drop k) (pF sd))
  | ["nmpattrs", phase, ever] =>
      let ph : FitPhase := if phase == "idle" then .idle else if phase == "initialised" then .initialised
        else if phase == "minimised" then .minimised else if phase == "errors" then .errorsDone else .cleaned
      ",".intercalate (nmpAttrs ph (ever == "1"))
  -- C02 / C03 ---------------------------------------------------------
  | ["nstop", x] => toString (nstopOf (pF x))
  | ["dndown", zr, zi, nmx, sr, si] => sFs (flatCx (dnDown (⟨pF zr, pF zi⟩ : Cx Float) (pN nmx) ⟨pF sr, pF si⟩))
  | ["lentz", zr, zi, n, e1, e2] => let d := lentzDn1 ⟨pF zr, pF zi⟩ (pN n) (pF e1) (pF e2); sFs [d.re, d.im]
  | ["pistaus", n, th] =>
      let pt := pisTaus (pN n) (Float.cos (pF th))
      sFs (pt.map (·.1) ++ pt.map (·.2))
  | ["miecoeffs", mr, mi, x, ns, e1, e2] =>
      let ab := mieCoeffs ⟨pF mr, pF mi⟩ (pF x) (pN ns) (pF e1) (pF e2)
      sFs (flatCx (ab.map (·.1)) ++ flatCx (ab.map (·.2)))
  | "asmfar" :: th :: abs =>
      let s := mieS1S2 (abPairs (cxs (abs.map pF))) (pF th)
      sFs [s.1.re, s.1.im, s.2.re, s.2.im]
  | ["miefar", mr, mi, x, th] =>
      let ab := mieCoeffs ⟨pF mr, pF mi⟩ (pF x) (nstopOf (pF x)) 0.01 1e-16
      let s := mieS1S2 ab (pF th)
      sFs [s.1.re, s.1.im, s.2.re, s.2.im]
  | "xsecsums" :: abs =>
      let ab := abPairs (cxs (abs.map pF))
      let s := crossSectionSums ab
      sFs [s.1, s.2.1, s.2.2, asymmetrySum ab]
  | ["miexsec", k, mr, mi, x] =>
      let ab := mieCoeffs ⟨pF mr, pF mi⟩ (pF x) (nstopOf (pF x)) 0.01 1e-16
      let c := mieCrossSections (pF k) ab
      sFs [c.1, c.2.1, c.2.2.1, c.2.2.2]
  | "rawxsec" :: k :: abs =>
      let c := mieCrossSections (pF k) (abPairs (cxs (abs.map pF)))
      sFs [c.1, c.2.1, c.2.2.1, c.2.2.2]
  | "yangstep" :: args =>
      match cxs (args.map pF) with
      | [ml, mlm1, ha, hb, d1z1, d3z1, d1z2, d3z2, q] =>
        let r := yangStep ml mlm1 ha hb d1z1 d3z1 d1z2 d3z2 q
        sFs [r.1.re, r.1.im, r.2.re, r.2.im]
      | _ => "bad-op"
  | "coeffab" :: args =>
      match cxs (args.map pF) with
      | [h, m, nx, ps, psp, xi, xip] =>
        let a := coeffA h m nx ps psp xi xip; let b := coeffB h m nx ps psp xi xip
        sFs [a.re, a.im, b.re, b.im]
      | _ => "bad-op"
  | "cumsum" :: ts => sFs (cumsumFrom 0.0 (ts.map pF))
  -- C09 ---------------------------------------------------------------
  | "defaulttheory" :: dda :: kind :: rest =>
      let k : ScKind Rat := match kind with
        | "sphere" => .sphere | "spheroid" => .spheroid | "cylinder" => .cylinder
        | "other" => .otherScatterer | "spheres" => .spheres (parseSpecs rest) | _ => .notScatterer
      showTheory (defaultTheory (dda == "1") k)
  | "scsmfoargs" :: k :: nmed :: rest =>
      let ss := (rest.map pF)
      let rec six : List Float → List (V3 Float × Float × Float × Float)
        | x :: y :: z :: r :: nr :: ni :: t => ((x, y, z), r, nr, ni) :: six t
        | _ => []
      let out := scsmfoArgs (pF k) (pF nmed) (six ss)
      sFs (out.flatMap fun o => [o.1.1, o.1.2.1, o.1.2.2, o.2.1, o.2.2.1, o.2.2.2])
  | ["genfailures"] => toString (translationFailures ++ projTranslationFailures ++ tablesTranslationFailures ++ tmguardsTranslationFailures)
  | _ => "bad-op"

partial def loop (h : IO.FS.Stream) : IO Unit := do
  let line ← h.getLine
  if line.isEmpty then return ()
  IO.println (step line)
  loop h

def main : IO Unit := do loop (← IO.getStdin)
