#!/bin/sh
# Offline setup: build the Fortran extensions from /repo, regenerate HoloGen, build the whole Lean project
# (models, regenerated models, every property theorem) so that the checks only rebuild what changed.
set -e
cd "$(dirname "$0")"
/venv/bin/python -m harness.extbuild
/venv/bin/python -m harness.translate
cd lean
lake build 2>&1 | grep -v '^✔' | tail -15 || true
echo "genfailures" | lake env lean --run Main.lean
