#!/bin/sh
# Offline setup: build the Fortran extensions from /repo, regenerate HoloGen, build the Lean project.
set -e
cd "$(dirname "$0")"
/venv/bin/python -m harness.extbuild
/venv/bin/python -m harness.translate
cd lean
lake build 2>&1 | tail -5
echo "genfailures" | lake env lean --run Main.lean
